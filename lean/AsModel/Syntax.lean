import AsModel.Runtime.Label
/-
What the user wrote, as the macro's parser represents it (model of the types in
assert-struct-macros/src/pattern.rs and pattern/*.rs).  User expressions are
opaque: the crate only ever looks at a few syntactic facts about them (`UClass`)
and re-emits their tokens.
-/
namespace AsModel
open Runtime (CmpOp)

/-- A proc-macro2 span as (line start, column start, line end, column end);
lines 1-based, columns 0-based counted in characters. -/
structure Sp where
  ls : Nat
  cs : Nat
  le : Nat
  ce : Nat
  deriving DecidableEq, Repr, Inhabited

/-- `Span::call_site()` as the in-process harness sees it (an empty span at 1:0). -/
def Sp.callSite : Sp := ⟨1, 0, 1, 0⟩

inductive TokText
  | plain (s : String)
  | str (value : String)        -- a string literal token, identified by its value
  deriving DecidableEq, Repr, Inhabited

structure Tok where
  text : TokText
  sp : Sp
  deriving DecidableEq, Repr, Inhabited

/-- What the crate inspects about a `syn::Expr`. -/
inductive UClass
  | litStr (value : String)
  | lit
  | range (start : Option Sp) (limits : Sp) (stop : Option Sp)
  | closure (arity : Nat)
  | path
  | other
  deriving DecidableEq, Repr, Inhabited

/-- An opaque user expression: classification, span, `to_string()` text, tokens. -/
structure UExpr where
  cls : UClass
  sp : Sp
  text : String
  toks : List Tok
  deriving DecidableEq, Repr, Inhabited

/-- A `syn::Path` as written: spans of its first and last segment idents, its whole
span, `to_string()` text and tokens. -/
structure UPath where
  first : Sp
  last : Sp
  sp : Sp
  text : String
  toks : List Tok
  deriving DecidableEq, Repr, Inhabited

structure IdentTok where
  name : String
  sp : Sp
  deriving DecidableEq, Repr, Inhabited

/-- The identifier without a raw-identifier prefix (`format_ident!` strips `r#`). -/
def IdentTok.unraw (i : IdentTok) : String :=
  if i.name.startsWith "r#" then (i.name.drop 2).toString else i.name

inductive FieldName
  | ident (i : IdentTok)
  | index (n : Nat)
  deriving DecidableEq, Repr, Inhabited

/-- One `FieldOperation` other than `Chained`. -/
inductive FieldOp
  | deref (count : Nat) (sp : Sp)
  | method (name : IdentTok) (sp : Sp) (args : List UExpr)
  | await (sp : Sp)
  | named (name : IdentTok) (sp : Sp)
  | unnamed (index : Nat) (sp : Sp)
  | index (e : UExpr) (sp : Sp)
  deriving DecidableEq, Repr, Inhabited

/-- A parsed `FieldOperation`: a single operation (`ops.length = 1`) or
`Chained { operations, span }`. -/
structure FieldOps where
  ops : List FieldOp
  sp : Sp
  deriving DecidableEq, Repr, Inhabited

def FieldName.toString : FieldName → String
  | .ident i => i.name
  | .index n => ToString.toString n

def FieldOp.isDeref : FieldOp → Bool
  | .deref .. => true
  | _ => false

def FieldOp.isField : FieldOp → Bool
  | .named .. => true
  | .unnamed .. => true
  | _ => false

def FieldOp.fieldName? : FieldOp → Option FieldName
  | .named n _ => some (.ident n)
  | .unnamed i _ => some (.index i)
  | _ => none

/-- `FieldOperation::root_field_name`; `none` is the `panic!` / `expect` of the code. -/
def FieldOps.rootFieldName? (f : FieldOps) : Option FieldName :=
  match f.ops with
  | [op] => op.fieldName?                          -- a single operation: must be a field
  | ops =>
    match ops.find? (fun o => !o.isDeref) with    -- Chained: first non-Deref operation …
    | some op => op.fieldName?                     -- … whose own root_field_name must exist
    | none => none

/-- `FieldOperation::tail_operations`: the operations minus the first field access.
Result: `none` (no tail), or the remaining list (single or chained).
The outer `Option` is the code's `expect` (a chain without any field access). -/
def FieldOps.tailOps? (f : FieldOps) : Option (Option FieldOps) :=
  match f.ops with
  | [op] => if op.isField then some none else some none   -- `_ => None` for non-field singles
  | ops =>
    match ops.findIdx? FieldOp.isField with
    | none => none
    | some i =>
      let tl := ops.take i ++ ops.drop (i + 1)
      if tl.isEmpty then some none else some (some { ops := tl, sp := f.sp })

mutual
/-- `Pattern`. Lists of sub-patterns are `Items` (hand-rolled so that recursion over
the whole tree is plain mutual structural recursion). -/
inductive Pat
  | simple (id : Nat) (e : UExpr)
  | string (id : Nat) (value : String) (sp : Sp) (tok : Tok)
  | struct (id : Nat) (path : Option UPath) (fields : Items) (rest : Bool)
  | enum (id : Nat) (path : UPath) (elems : Items)
  | tuple (id : Nat) (sp : Sp) (elems : Items)
  | slice (id : Nat) (sp : Sp) (elems : Items)
  | set (id : Nat) (sp : Sp) (elems : Items) (rest : Bool)
  | cmp (id : Nat) (op : CmpOp) (opSp : Sp) (e : UExpr)
  | range (id : Nat) (e : UExpr)
  | regex (id : Nat) (pattern : String) (sp : Sp)
  | like (id : Nat) (e : UExpr)
  | wild (id : Nat)
  | closure (id : Nat) (e : UExpr)
  | map (id : Nat) (sp : Sp) (entries : Items) (rest : Bool)
/-- A list of sub-patterns with what their parent attaches to each: field
operations (struct fields, indexed tuple elements) and/or a key (map entries). -/
inductive Items
  | nil
  | cons (ops : Option FieldOps) (key : Option UExpr) (p : Pat) (tl : Items)
end

instance : Inhabited Pat := ⟨.wild 0⟩
instance : Inhabited Items := ⟨.nil⟩

def Pat.id : Pat → Nat
  | .simple id _ | .string id _ _ _ | .struct id _ _ _ | .enum id _ _ | .tuple id _ _
  | .slice id _ _ | .set id _ _ _ | .cmp id _ _ _ | .range id _ | .regex id _ _
  | .like id _ | .wild id | .closure id _ | .map id _ _ _ => id

def Items.length : Items → Nat
  | .nil => 0
  | .cons _ _ _ tl => tl.length + 1

def Items.toList : Items → List (Option FieldOps × Option UExpr × Pat)
  | .nil => []
  | .cons o k p tl => (o, k, p) :: tl.toList

def Items.ofList : List (Option FieldOps × Option UExpr × Pat) → Items
  | [] => .nil
  | (o, k, p) :: tl => .cons o k p (Items.ofList tl)

/-- Root field names of the field assertions of a struct pattern, in order. -/
def Items.rootNames : Items → List FieldName
  | .nil => []
  | .cons ops _ _ tl =>
    match ops.bind FieldOps.rootFieldName? with
    | some f => f :: tl.rootNames
    | none => tl.rootNames

/-- `(p)`: a single positional element — Rust reads the generated `(binding)` as a
parenthesised pattern, not as a 1-tuple. -/
def Items.isSingleParen : Items → Bool
  | .cons _ _ _ .nil => true
  | _ => false

def Pat.isWild : Pat → Bool
  | .wild _ => true
  | _ => false

/-- The slice-rest test of `expand_slice_assertion`: a range pattern whose expression is
a bare `..`. -/
def Pat.isSliceRest : Pat → Bool
  | .range _ e => match e.cls with
    | .range none _ none => true
    | _ => false
  | _ => false

end AsModel
