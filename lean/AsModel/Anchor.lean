import AsModel.Grammar
import AsModel.Nodes
/-
Vocabulary for the anchor theorem (C04): where a cursor is in the token tree, what `syn` is
assumed to report about the spans of what it parses (checked on every oracle table by the
driver), and which of its own tokens a pattern's recorded location must be made of.
-/
namespace AsModel

/-- The span of a token as a whole (a group: from its opening to its closing delimiter). -/
def TT.span : TT → Sp
  | .ident _ sp _ | .punct _ _ sp | .lit _ _ sp _ => sp
  | .group _ sp _ _ _ => sp

/-- `a` starts where `b` starts / ends where `b` ends (line and character column). -/
def Sp.sameStart (a b : Sp) : Bool := a.ls == b.ls && a.cs == b.cs
def Sp.sameEnd (a b : Sp) : Bool := a.le == b.le && a.ce == b.ce

/-- `sp` runs from the start of the first token of `run` to the end of its last token. -/
def covers (sp : Sp) (run : List TT) : Bool :=
  match run.head?, run.getLast? with
  | some a, some b => sp.sameStart a.span && sp.sameEnd b.span
  | _, _ => false

/-- The token sequence at a path of group indices. -/
def seqAt : List TT → List Nat → Option (List TT)
  | ts, [] => some ts
  | ts, i :: path =>
    match ts[i]? with
    | some (.group _ _ _ _ inner) => seqAt inner path
    | _ => none

/-- The span a range pattern reports: start of its first operand (or of the `..`), end of its
last operand (or of the `..`). -/
def rangeSpan (st : Option Sp) (lim : Sp) (en : Option Sp) : Sp :=
  let s := st.getD lim
  let t := en.getD lim
  ⟨s.ls, s.cs, t.le, t.ce⟩

/-- The first token of the expression as `syn` re-emits it is the first token of the run
(a group is re-emitted with its whole span on its opening delimiter). -/
def firstTokOk (e : UExpr) (run : List TT) : Bool :=
  match e.toks.head?, run.head? with
  | some t, some r => t.sp == r.span
  | _, _ => false

def exprSpansOk (e : UExpr) (run : List TT) : Bool :=
  covers e.sp run && firstTokOk e run &&
  (match e.cls with
    | .range st lim en => covers (rangeSpan st lim en) run
    | _ => true)

def pathSpansOk (p : UPath) (run : List TT) : Bool :=
  run.any (fun t => p.first.sameStart t.span) && run.any (fun t => p.last.sameEnd t.span)

def runAt (ts : List TT) (path : List Nat) (idx n : Nat) : Option (List TT) :=
  match seqAt ts path with
  | some toks => if 1 ≤ n ∧ idx + n ≤ toks.length then some ((toks.drop idx).take n) else none
  | none => none

/-- What is assumed of `syn`: an expression's span runs from its first to its last token
(`Span::join` works in the in-process harness; under rustc the first token stands for the
whole, see `noJoin`), a range reports its operands the same way, a path's first and last
segment are among its tokens (a leading `::` comes before the first segment).  Decidable; evaluated by the driver on every oracle table. -/
def oracleSpansOk (ts : List TT) (o : Oracle) : Bool :=
  o.exprs.all (fun ((path, idx), (n, _, e)) => match runAt ts path idx n with | some run => exprSpansOk e run | none => false) &&
  o.paths.all (fun ((path, idx), (n, _, p)) => match runAt ts path idx n with | some run => pathSpansOk p run | none => false) &&
  o.closures.all (fun ((path, idx), (n, _, _, e)) => match runAt ts path idx n with | some run => covers e.sp run && firstTokOk e run | none => false)

/-- Group tokens span from their opening to their closing delimiter. -/
def TT.wf : TT → Bool
  | .group _ sp so sc ts => sp.sameStart so && sp.sameEnd sc && ts.attach.all (fun ⟨t, _⟩ => t.wf)
  | .punct _ _ sp => sp.le == sp.ls && sp.ce == sp.cs + 1      -- one character
  | _ => true

def tokensWf (ts : List TT) : Bool := ts.all TT.wf

end AsModel
