import AsModel.Value
import AsModel.Runtime.SetMatch
/-
The specification side (DESIGN.md section 2, column "spec"): what a pattern says
about a value, written directly from the documentation, independently of the
expansion.  `sat` is the verdict; `frontier` is the failure frontier (the entries a
correct report contains).  `none` means "this (pattern, value) pair does not
type-check" — rustc rejects the program, there is no verdict.
-/
namespace AsModel
open Runtime (setMatch)

/-- Strip `n` smart-pointer layers (`*` written `n` times on a field path). -/
def derefN : Nat → Val → Option Val
  | 0, v => some v
  | n + 1, v => v.deref1.bind (derefN n)

/-- Documented meaning of one field operation, applied to the value reached so far. -/
def opSem (P : Prims) (v : Val) : FieldOp → Option Val
  | .deref c _ => derefN c v
  | .method name _ args => P.method name.name args v
  | .await _ => some v
  | .named n _ => v.field (.ident n)
  | .unnamed i _ => v.field (.index i)
  | .index e _ => P.index v e

/-- Field operations are applied left to right ("Field Operation Precedence" in the docs). -/
def opsSem (P : Prims) : List FieldOp → Val → Option Val
  | [], v => some v
  | op :: ops, v => (opSem P v op).bind (opsSem P ops)

/-- The sub-value a field assertion is about: the root field of `v`, then the remaining
operations in written order (`*f.len()` = `(*f).len()`). -/
def fieldSub (P : Prims) (v : Val) (ops : FieldOps) : Option Val := do
  let root ← ops.rootFieldName?
  let base ← v.field root
  match ops.tailOps? with
  | some (some tl) => opsSem P tl.ops base
  | some none => some base
  | none => none

/-- An indexed tuple element `*1.len(): p` is about element `i` followed by the operations. -/
def elemSub (P : Prims) (vi : Val) (ops : FieldOps) : Option Val :=
  match ops.tailOps? with
  | some (some tl) => opsSem P tl.ops vi
  | some none => some vi
  | none => none

def mapLookup (eq : Val → Val → Bool) (k : Val) : List Val → List Val → Option Val
  | key :: keys, v :: vals => if eq key k then some v else mapLookup eq k keys vals
  | _, _ => none

def mkEntry (P : Prims) (id : Nat) (v : Val) : Entry := ⟨id, P.debug v, none⟩

def appendO {α} (a b : Option (List α)) : Option (List α) :=
  match a, b with
  | some x, some y => some (x ++ y)
  | _, _ => none

def Items.countRest : Items → Nat
  | .nil => 0
  | .cons _ _ p tl => (if p.isSliceRest then 1 else 0) + tl.countRest

def Items.allNamesListed (names : List String) (fields : Items) : Bool :=
  names.all fun n => fields.rootNames.any fun f => f.toString == n

mutual
/-- The failure frontier of `p` against the sub-value `v` (reference-free). -/
def frontier (P : Prims) : Pat → Val → Option (List Entry)
  | .simple id e, v => some (if P.lit e v then [] else [mkEntry P id v])
  | .string id s _ _, v => some (if P.strLit s v then [] else [mkEntry P id v])
  | .cmp id op _ e, v =>
    some (if P.cmp op v e then [] else [⟨id, P.debug v, if op = .eq then some e.text else none⟩])
  | .range id e, v => some (if P.inRange e v then [] else [mkEntry P id v])
  | .regex id pat _, v => some (if P.regex pat v then [] else [mkEntry P id v])
  | .like id e, v => some (if P.like e v then [] else [mkEntry P id v])
  | .closure id e, v => some (if P.closure e v then [] else [mkEntry P id v])
  | .wild _, _ => some []
  | .enum id path elems, v =>
    if elems.length = 0 then some (if P.unitPath path v then [] else [mkEntry P id v])
    else match v with
      | .adt ctor _ vals =>
        if P.ctor path ctor then
          (if vals.length = elems.length then frontierElems P elems vals else none)
        else some [mkEntry P id v]
      | _ => none
  | .struct id (some path) fields rest, v =>
    match v with
    | .adt ctor names _ =>
      if P.ctor path ctor then
        (if rest || fields.allNamesListed names then frontierFields P fields v else none)
      else some [mkEntry P id v]
    | _ => none
  | .struct _ none fields _, v => frontierFields P fields v
  | .tuple _ _ elems, v =>
    if elems.isSingleParen then frontierHead P elems v   -- `(p)` is a parenthesised pattern
    else match v with
      | .tuple vs => if vs.length = elems.length then frontierElems P elems vs else none
      | _ => none
  | .slice id _ elems, v =>
    match v.autoDeref with
    | .seq vs =>
      let n := elems.length - elems.countRest
      if elems.countRest = 0 then
        (if vs.length = n then frontierSlice P elems vs else some [mkEntry P id v])
      else if elems.countRest = 1 then
        (if n ≤ vs.length then frontierSlice P elems vs else some [mkEntry P id v])
      else none                                       -- more than one `..`: rustc rejects
    | _ => none
  | .set id _ elems rest, v =>
    match v.elems? with
    | some vs =>
      let rows := matchRows P elems vs
      let M : Nat → Nat → Bool := fun k i => (rows.getD k []).getD i false
      some ((setMatch vs.length rest elems.length M).map fun pu => ⟨id, pu.actual, pu.expected⟩)
    | none => none
  | .map id _ entries rest, v =>
    match v.autoDeref with
    | .map keys vals =>
      let lenE : List Entry :=
        if !rest && keys.length != entries.length then
          [⟨id, s!"map with {keys.length} entries", some s!"{entries.length} entries"⟩]
        else []
      appendO (some lenE) (frontierEntries P id entries keys vals)
    | _ => if rest && entries.length == 0 then some [] else none   -- `#{..}` constrains nothing

/-- The first element's pattern against `v` itself (after the element's own operations, if any). -/
def frontierHead (P : Prims) : Items → Val → Option (List Entry)
  | .nil, _ => none
  | .cons none _ p _, v => frontier P p v
  | .cons (some ops) _ p _, v =>
    match elemSub P v ops with
    | some sub => frontier P p sub
    | none => none

/-- Fields of a struct pattern against the struct value `v`. -/
def frontierFields (P : Prims) : Items → Val → Option (List Entry)
  | .nil, _ => some []
  | .cons ops _ p tl, v =>
    let here := match ops with
      | some ops => match fieldSub P v ops with
        | some sub => frontier P p sub
        | none => none
      | none => none
    appendO here (frontierFields P tl v)

/-- Positional / indexed elements against the component values, pairwise. -/
def frontierElems (P : Prims) : Items → List Val → Option (List Entry)
  | .nil, _ => some []
  | .cons ops _ p tl, vs =>
    match vs with
    | [] => none
    | vi :: vs' =>
      let here := match ops with
        | none => frontier P p vi
        | some ops => match elemSub P vi ops with
          | some sub => frontier P p sub
          | none => none
      appendO here (frontierElems P tl vs')

/-- Slice elements: those before `..` align from the front, those after it from the back. -/
def frontierSlice (P : Prims) : Items → List Val → Option (List Entry)
  | .nil, _ => some []
  | .cons _ _ p tl, vs =>
    if p.isSliceRest then frontierSlice P tl (vs.drop (vs.length - tl.length))
    else match vs with
      | [] => none
      | vi :: vs' => appendO (frontier P p vi) (frontierSlice P tl vs')

/-- Row `k`: which elements of the collection the `k`-th set pattern matches. -/
def matchRows (P : Prims) : Items → List Val → List (List Bool)
  | .nil, _ => []
  | .cons _ _ p tl, vs =>
    (vs.map fun v => match frontier P p v with | some [] => true | _ => false) :: matchRows P tl vs

/-- Map entries: one missing-key entry per absent key, otherwise the value pattern. -/
def frontierEntries (P : Prims) (id : Nat) : Items → List Val → List Val → Option (List Entry)
  | .nil, _, _ => some []
  | .cons _ key p tl, keys, vals =>
    let here := match key with
      | some k => match mapLookup P.valEq (P.key k) keys vals with
        | some val => frontier P p val
        | none => some [⟨id, "missing key", some s!"key present: {k.text}"⟩]
      | none => none
    appendO here (frontierEntries P id tl keys vals)
end

end AsModel
