import AsModel.Exec
/-
Observable effects of running the expansion (C08): `execT` is `exec` with a tally beside
the entries - how many *steps with an observable evaluation* (method calls, index
operations, `.await`) the run performed, weighted by an arbitrary `Weights`, and how many
times `Debug` formatting ran.  A value expression is a binder with a chain of field
operations spliced onto it; evaluating the expression once runs every step of the chain
once.  Which templates evaluate which expression on which path is read off expand.rs:

* every leaf template evaluates its value expression in its test; all of them except the
  string template splice it a second time into `format!("{:?}", ..)` of the push;
* struct / enum / tuple / slice templates evaluate it as the scrutinee of their `match`,
  and a second time in the push of the fallback arm;
* a map pattern evaluates it in the length check and once per key lookup;
* a wildcard struct pattern has no code of its own: every field access re-splices it;
* a set pattern evaluates it once (`match &(V) { __set_src => .. }`); what its probe
  predicates do is *not* tallied here - the property excludes the search, and the probes'
  Debug formatting on the passing path is the recorded finding `debug-on-pass:set`.

`execT_entries` proves that the first component of `execT` is `exec`: the tally is a
conservative extension, the refinement theorem and everything built on it keep talking
about the same run.
-/
namespace AsModel
open Runtime (setMatch)

/-- What one evaluation of each kind of step counts for.  The theorems hold for every
choice, so they speak about each kind of step - and each method - separately
(`⟨fun m => if m = "get" then 1 else 0, 0, 0⟩`: calls of `get` only, ...). -/
structure Weights where
  call : String → Nat      -- per method name
  index : Nat
  await : Nat

/-- Cost of evaluating the postfix chain once. -/
def Core.cost (w : Weights) : Core → Nat
  | .root => 0
  | .var _ => 0
  | .paren _ c => c.cost w
  | .method c _ name _ => c.cost w + w.call name.name
  | .await c _ => c.cost w + w.await
  | .named c _ _ => c.cost w
  | .unnamed c _ _ _ => c.cost w
  | .index c _ _ => c.cost w + w.index

def VExpr.cost (w : Weights) (v : VExpr) : Nat := v.core.cost w

/-- Entries pushed, weighted steps evaluated, `Debug` calls. -/
structure Tally where
  entries : List Entry
  steps : Nat
  debugs : Nat

def Tally.zero : Tally := ⟨[], 0, 0⟩

def Tally.add (a b : Tally) : Tally := ⟨a.entries ++ b.entries, a.steps + b.steps, a.debugs + b.debugs⟩

/-- The same run after `n` more steps. -/
def Tally.tick (n : Nat) (t : Tally) : Tally := ⟨t.entries, t.steps + n, t.debugs⟩

/-- Steps evaluated while building the `actual` text of a push. -/
def Push.cost (w : Weights) (p : Push) : Nat :=
  match p.actual with
  | .dbg v | .dbgRef v | .mapLen v => v.cost w
  | .dbgActual | .missingKey => 0

/-- `Debug` calls made while building the `actual` text of a push. -/
def Push.debugs (p : Push) : Nat :=
  match p.actual with
  | .dbg _ | .dbgRef _ | .dbgActual => 1
  | .mapLen _ | .missingKey => 0

/-- `if !test { push }` with its tally. -/
def guardPushT (w : Weights) (P : Prims) (env : Env) (actual? : Option Val) (test : Bool) (p : Push) :
    Option Tally :=
  if test then some Tally.zero else (p.eval P env actual?).map fun e => ⟨[e], p.cost w, p.debugs⟩

def appendT (a b : Option Tally) : Option Tally :=
  match a, b with
  | some x, some y => some (x.add y)
  | _, _ => none

mutual
/-- `exec` with the tally. -/
def execT (w : Weights) (P : Prims) : Code → Env → Option Tally
  | .skip, _ => some Tally.zero
  | .seq cs, env => execsT w P cs env
  | .simple _ v e push, env =>
    (evalV P env v).bind fun x => (guardPushT w P env none (P.lit e x.v) push).map (Tally.tick (v.cost w))
  | .string _ v _ value push, env =>
    (evalV P env v).bind fun x =>
      (guardPushT w P env (some x.v) (P.strLit value x.v) push).map (Tally.tick (v.cost w))
  | .cmp _ v op e push, env =>
    (evalV P env v).bind fun x => (guardPushT w P env none (P.cmp op x.v e) push).map (Tally.tick (v.cost w))
  | .unitVariant _ v path push, env =>
    (evalV P env v).bind fun x => (guardPushT w P env none (P.unitPath path x.v) push).map (Tally.tick (v.cost w))
  | .range _ v e push, env =>
    (evalV P env v).bind fun x => (guardPushT w P env none (P.inRange e x.v) push).map (Tally.tick (v.cost w))
  | .regex _ v pat push, env =>
    (evalV P env v).bind fun x => (guardPushT w P env none (P.regex pat x.v) push).map (Tally.tick (v.cost w))
  | .like _ v e push, env =>
    (evalV P env v).bind fun x => (guardPushT w P env none (P.like e x.v) push).map (Tally.tick (v.cost w))
  | .closure _ v e push, env =>
    (evalV P env v).bind fun x => (guardPushT w P env none (P.closure e x.v) push).map (Tally.tick (v.cost w))
  | .enumTuple _ v path binders body push, env =>
    (evalV P env v).bind fun x =>
      match x.v with
      | .adt ctor _ vals =>
        if P.ctor path ctor then
          (if vals.length = binders.length then
            (execsT w P body (bindElems binders vals env)).map (Tally.tick (v.cost w)) else none)
        else (guardPushT w P env none false push).map (Tally.tick (v.cost w))
      | _ => none
  | .structNamed _ v path fields _ rest body push, env =>
    (evalV P env v).bind fun x =>
      match x.v with
      | .adt ctor names _ =>
        if P.ctor path ctor then
          (if rest || allListed names fields then
            (bindFields x.v fields env).bind fun env' => (execsT w P body env').map (Tally.tick (v.cost w))
          else none)
        else (guardPushT w P env none false push).map (Tally.tick (v.cost w))
      | _ => none
  | .tuple v binders body, env =>
    (evalV P env v).bind fun x =>
      match binders with
      | [b] =>
        (execsT w P body (match b with | .bind n => env.set n.key ⟨x.v, x.d + 1⟩ | _ => env)).map
          (Tally.tick (v.cost w))
      | _ => match x.v with
        | .tuple vs =>
          if vs.length = binders.length then
            (execsT w P body (bindElems binders vs env)).map (Tally.tick (v.cost w)) else none
        | _ => none
  | .slice v parts body push, env =>
    (evalV P env v).bind fun x =>
      match x.v.autoDeref with
      | .seq vs =>
        let nRest := parts.countP Binder.isRest
        let n := parts.length - nRest
        if nRest = 0 then
          (if vs.length = n then (execsT w P body (bindSlice parts vs env)).map (Tally.tick (v.cost w))
           else (guardPushT w P env none false push).map (Tally.tick (v.cost w)))
        else if nRest = 1 then
          (if n ≤ vs.length then (execsT w P body (bindSlice parts vs env)).map (Tally.tick (v.cost w))
           else (guardPushT w P env none false push).map (Tally.tick (v.cost w)))
        else none
      | _ => none
  | .mapLen _ v n push, env =>
    (evalV P env v).bind fun x =>
      match x.v.autoDeref with
      | .map ks _ => (guardPushT w P env none (ks.length == n) push).map (Tally.tick (v.cost w))
      | _ => none
  | .mapGet _ v key body push, env =>
    (evalV P env v).bind fun x =>
      match x.v.autoDeref with
      | .map ks vs =>
        match mapLookup P.valEq (P.key key) ks vs with
        | some val => (execT w P body (env.set Key.mapValue ⟨val, 1⟩)).map (Tally.tick (v.cost w))
        | none => (guardPushT w P env none false push).map (Tally.tick (v.cost w))
      | _ => none
  | .set v preds rest node, env =>
    (evalV P env v).bind fun x =>
      match x.v.elems? with
      | some vs =>
        let rows := probeRows P preds vs env
        let M : Nat → Nat → Bool := fun k i => (rows.getD k []).getD i false
        some ⟨(setMatch vs.length rest preds.toList.length M).map fun pu => ⟨node, pu.actual, pu.expected⟩,
              v.cost w, 0⟩
      | none => none
def execsT (w : Weights) (P : Prims) : Codes → Env → Option Tally
  | .nil, _ => some Tally.zero
  | .cons c tl, env => appendT (execT w P c env) (execsT w P tl env)
end

/-- The whole expansion on an asserted value, with the tally.  The asserted expression itself
is evaluated by `let __assert_struct_value = &(value);` - once, before and outside the
assertion code (`C08_root_bound_once`); the tally is that of the assertion code. -/
def runT (w : Weights) (P : Prims) (x : Expansion) (value : Val) : Option Tally :=
  execT w P x.body (Env.set (fun _ => none) Key.rootValue ⟨value, 1⟩)

/-! ### The cost of a run in which every test passes, read off the code -/

mutual
def Code.passCost (w : Weights) : Code → Nat
  | .skip => 0
  | .seq cs => cs.passCost w
  | .simple _ v _ _ | .string _ v _ _ _ | .cmp _ v _ _ _ | .unitVariant _ v _ _ | .range _ v _ _
  | .regex _ v _ _ | .like _ v _ _ | .closure _ v _ _ | .mapLen _ v _ _ | .set v _ _ _ => v.cost w
  | .enumTuple _ v _ _ body _ | .structNamed _ v _ _ _ _ body _ | .tuple v _ body | .slice v _ body _ =>
    v.cost w + body.passCost w
  | .mapGet _ v _ body _ => v.cost w + body.passCost w
def Codes.passCost (w : Weights) : Codes → Nat
  | .nil => 0
  | .cons c tl => c.passCost w + tl.passCost w
end

/-! ### The same, read off the pattern -/

def FieldOp.cost (w : Weights) : FieldOp → Nat
  | .method name .. => w.call name.name
  | .await _ => w.await
  | .index .. => w.index
  | .deref .. | .named .. | .unnamed .. => 0

def opsCost (w : Weights) (ops : List FieldOp) : Nat := (ops.map (FieldOp.cost w)).sum

/-- Cost of the operations of a field / indexed element that follow its root field access
(the chain written after the field name). -/
def FieldOps.tailCost (w : Weights) (o : FieldOps) : Nat :=
  match o.tailOps? with
  | some (some tl) => opsCost w tl.ops
  | _ => 0

/-- Map entries (every entry the parser builds has a key). -/
def Items.keyed : Items → Nat
  | .nil => 0
  | .cons _ key _ tl => (if key.isSome then 1 else 0) + tl.keyed

mutual
/-- How many times the code generated for a pattern evaluates the expression it is handed,
on the path where everything matches. -/
def Pat.uses : Pat → Nat
  | .wild _ => 0
  | .struct _ none fields _ => fields.usesSum
  | .map _ _ entries rest => (if rest then 0 else 1) + entries.keyed
  | _ => 1
/-- A wildcard struct hands its own expression to every field. -/
def Items.usesSum : Items → Nat
  | .nil => 0
  | .cons ops _ p tl =>
    (match ops with
      | some o => if o.rootFieldName?.isSome then p.uses else 0
      | none => 0) + tl.usesSum
end

mutual
/-- Evaluations of the chains *written inside* the pattern on the all-matching path, each
weighted by its cost: a chain is counted as often as the pattern it leads to uses it. -/
def Pat.inner (w : Weights) : Pat → Nat
  | .struct _ (some _) fields _ => fields.innerFields w
  | .struct _ none fields _ => fields.innerFields w
  | .enum _ _ elems => if elems.length = 0 then 0 else elems.innerElems w
  | .tuple _ _ elems => elems.innerElems w
  | .slice _ _ elems => elems.innerSlice w
  | .map _ _ entries _ => entries.innerEntries w
  | _ => 0
/-- Struct fields (named or wildcard): `root.tail: p`. -/
def Items.innerFields (w : Weights) : Items → Nat
  | .nil => 0
  | .cons ops _ p tl =>
    (match ops with
      | some o => if o.rootFieldName?.isSome then o.tailCost w * p.uses + p.inner w else 0
      | none => 0) + tl.innerFields w
/-- Tuple / variant elements, positional or indexed; wildcards generate nothing. -/
def Items.innerElems (w : Weights) : Items → Nat
  | .nil => 0
  | .cons ops _ p tl =>
    (if p.isWild then 0 else
      match ops with
      | some o => o.tailCost w * p.uses + p.inner w
      | none => p.inner w) + tl.innerElems w
/-- Slice elements: no operations of their own. -/
def Items.innerSlice (w : Weights) : Items → Nat
  | .nil => 0
  | .cons _ _ p tl => p.inner w + tl.innerSlice w
/-- Map values: no operations of their own. -/
def Items.innerEntries (w : Weights) : Items → Nat
  | .nil => 0
  | .cons _ key p tl => (if key.isSome then p.inner w else 0) + tl.innerEntries w
end

end AsModel
