import AsModel.Syntax
/-
The fragment of Rust's values the expansion touches (DESIGN.md section 3.5).
Smart pointers are explicit so that `*` has an exact meaning.  Values contain no
references of their own: the references the expansion creates (`&expr`, bindings under
`match &expr`) are tracked as a depth next to the value (`RV` in `Exec.lean`).
-/
namespace AsModel

inductive Val
  | int (n : Int)
  | bool (b : Bool)
  | str (s : String)                       -- `String` or `&str`
  | chr (c : Char)
  | dec (m : Int)                          -- an f64 with an exact two-decimal value `m / 100`
  | tuple (vs : List Val)
  | adt (ctor : String) (names : List String) (vals : List Val)
      -- struct / enum variant; `ctor` = last path segment; `names = []` for tuple-like and unit
  | seq (vs : List Val)                    -- Vec / array / slice
  | setv (vs : List Val)                   -- a set collection (in iteration order); `Debug` prints braces
  | map (keys : List Val) (vals : List Val)
  | box (v : Val)                          -- Box / Rc / Arc
  deriving Repr, Inhabited

/-- Remove outer smart pointers (auto-deref of `.field`, `.method()`, `[i]`, `as_slice`, `len`, `get`). -/
def Val.autoDeref : Val → Val
  | .box v => v.autoDeref
  | v => v

/-- The elements `(&v).into_iter()` yields, for the collections a set pattern accepts. -/
def Val.elems? (v : Val) : Option (List Val) :=
  match v.autoDeref with
  | .seq vs => some vs
  | .setv vs => some vs
  | _ => none

/-- One `*` applied to a value that is not behind a reference: strips one smart-pointer
layer; anything else does not type-check. -/
def Val.deref1 : Val → Option Val
  | .box v => some v
  | _ => none

def listIndexOf (xs : List String) (s : String) : Option Nat :=
  let i := xs.findIdx (· == s)
  if i < xs.length then some i else none

/-- Field access `v.f` / `v.0` (with auto-deref). `none`: no such field (E0609 / E0026). -/
def Val.field (v : Val) (f : FieldName) : Option Val :=
  match v.autoDeref, f with
  | .adt _ names vals, .ident i => (listIndexOf names i.name).bind (vals[·]?)
  | .adt _ [] vals, .index n => vals[n]?
  | .tuple vs, .index n => vs[n]?
  | _, _ => none

/-- One failure recorded in the report: node, actual text, expected text. -/
structure Entry where
  node : Nat
  actual : String
  expected : Option String
  deriving DecidableEq, Repr, Inhabited

/-- The observers the expansion relies on but the crate does not define: user
expressions, `Debug`, comparison, matchers.  Theorems quantify over all of them;
`Gen/RustPrims.lean` gives the executable instance used for predictions. -/
structure Prims where
  debug : Val → String                              -- `format!("{:?}", v)` (applied to a reference-free value)
  lit : UExpr → Val → Bool                          -- `matches!(v, <tokens>)` for a simple pattern
  strLit : String → Val → Bool                      -- `matches!(v.as_ref(), "lit")`
  cmp : Runtime.CmpOp → Val → UExpr → Bool          -- `(v).op(&(e))`
  inRange : UExpr → Val → Bool                      -- `match &v { <range> => true, _ => false }`
  regex : String → Val → Bool                       -- `v.like(&Regex::new(pat))`
  like : UExpr → Val → Bool                         -- `v.like(&e)`
  closure : UExpr → Val → Bool                      -- `check_closure_condition(v, c)`
  unitPath : UPath → Val → Bool                     -- `matches!(v, Path)` (a path that resolves to nothing binds: always true)
  ctor : UPath → String → Bool                      -- does the path name this constructor
  key : UExpr → Val                                 -- value of a map-key expression
  method : String → List UExpr → Val → Option Val   -- `v.m(args)`; `none`: does not type-check
  index : Val → UExpr → Option Val                  -- `v[e]`; `none`: does not type-check (out of bounds panics are not modelled)
  valEq : Val → Val → Bool                          -- key equality used by `get`

end AsModel
