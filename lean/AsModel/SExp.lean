import AsModel.Wire
import AsModel.Syntax
/-
S-expression reader/printer for the pattern AST exchanged with the in-process harness
(harness/inproc/src/dump.rs prints the same format from the real AST).
Driver-side code: `partial` is fine here, nothing is proved about it.
-/
namespace AsModel
open Wire Runtime

inductive SExp
  | atom (s : String)
  | list (xs : List SExp)
  deriving Inhabited, Repr

partial def SExp.parseMany : List Char → List SExp → (List SExp × List Char)
  | [], acc => (acc.reverse, [])
  | c :: cs, acc =>
    if c = ' ' ∨ c = '\t' ∨ c = '\n' then SExp.parseMany cs acc
    else if c = '(' then
      let (xs, rest) := SExp.parseMany cs []
      SExp.parseMany rest (SExp.list xs :: acc)
    else if c = ')' then (acc.reverse, cs)
    else
      let tok := (c :: cs).takeWhile (fun x => x ≠ ' ' ∧ x ≠ '(' ∧ x ≠ ')' ∧ x ≠ '\t')
      SExp.parseMany ((c :: cs).drop tok.length) (SExp.atom (String.ofList tok) :: acc)

def SExp.parse (s : String) : Option SExp :=
  match (SExp.parseMany s.toList []).1 with
  | [x] => some x
  | _ => none

def readSp (s : String) : Option Sp :=
  match (s.splitOn ".").map String.toNat? with
  | [some a, some b, some c, some d] => some ⟨a, b, c, d⟩
  | _ => none

def readOptSp (s : String) : Option (Option Sp) :=
  if s = "none" then some none else (readSp s).map some

def readTok (s : String) : Option Tok :=
  match s.splitOn "@" with
  | [t, sp] => do
    let sp ← readSp sp
    if t.startsWith "s:" then
      let v ← unhex (t.drop 2).toString
      pure ⟨.str v, sp⟩
    else
      let v ← unhex t
      pure ⟨.plain v, sp⟩
  | _ => none

def readToks : SExp → Option (List Tok)
  | .list (.atom "toks" :: xs) => xs.mapM fun x => match x with
    | .atom a => readTok a
    | _ => none
  | _ => none

def readIdentTok (s : String) : Option IdentTok :=
  match s.splitOn "@" with
  | [t, sp] => do pure ⟨← unhex t, ← readSp sp⟩
  | _ => none

def readClass : SExp → Option UClass
  | .list [.atom "litstr", .atom v] => (unhex v).map .litStr
  | .list [.atom "lit"] => some .lit
  | .list [.atom "range", .atom a, .atom b, .atom c] => do
    pure (.range (← readOptSp a) (← readSp b) (← readOptSp c))
  | .list [.atom "closure", .atom n] => n.toNat?.map .closure
  | .list [.atom "path"] => some .path
  | .list [.atom "other"] => some .other
  | _ => none

def readExpr : SExp → Option UExpr
  | .list [.atom "e", cls, .atom sp, .atom text, toks] => do
    pure { cls := ← readClass cls, sp := ← readSp sp, text := ← unhex text, toks := ← readToks toks }
  | _ => none

def readPath : SExp → Option UPath
  | .list [.atom "path", .atom f, .atom l, .atom sp, .atom text, toks] => do
    pure { first := ← readSp f, last := ← readSp l, sp := ← readSp sp, text := ← unhex text, toks := ← readToks toks }
  | _ => none

def readOp1 : SExp → Option FieldOp
  | .list [.atom "deref", .atom n, .atom sp] => do pure (.deref (← n.toNat?) (← readSp sp))
  | .list [.atom "method", .atom name, .atom sp, .list (.atom "args" :: args)] => do
    pure (.method (← readIdentTok name) (← readSp sp) (← args.mapM readExpr))
  | .list [.atom "await", .atom sp] => do pure (.await (← readSp sp))
  | .list [.atom "named", .atom name, .atom sp] => do pure (.named (← readIdentTok name) (← readSp sp))
  | .list [.atom "unnamed", .atom n, .atom sp] => do pure (.unnamed (← n.toNat?) (← readSp sp))
  | .list [.atom "index", e, .atom sp] => do pure (.index (← readExpr e) (← readSp sp))
  | _ => none

def FieldOp.sp : FieldOp → Sp
  | .deref _ sp | .method _ sp _ | .await sp | .named _ sp | .unnamed _ sp | .index _ sp => sp

def readOps : SExp → Option FieldOps
  | .list (.atom "chained" :: .atom sp :: ops) => do
    pure { ops := ← ops.mapM readOp1, sp := ← readSp sp }
  | x => do
    let op ← readOp1 x
    pure { ops := [op], sp := op.sp }

def readBool (s : String) : Option Bool :=
  if s = "true" then some true else if s = "false" then some false else none

def readCmp (s : String) : Option CmpOp :=
  match s with
  | "lt" => some .lt | "le" => some .le | "gt" => some .gt
  | "ge" => some .ge | "eq" => some .eq | "ne" => some .ne | _ => none

mutual
partial def readPat : SExp → Option Pat
  | .list [.atom "simple", .atom id, e] => do pure (.simple (← id.toNat?) (← readExpr e))
  | .list [.atom "string", .atom id, .atom v, .atom sp, .atom tok] => do
    pure (.string (← id.toNat?) (← unhex v) (← readSp sp) (← readTok tok))
  | .list [.atom "struct", .atom id, path, .list (.atom "fields" :: fs), .atom rest] => do
    let p ← match path with
      | .atom "none" => pure none
      | x => (readPath x).map some
    let items ← fs.mapM fun f => match f with
      | .list [.atom "f", ops, pat] => do pure (some (← readOps ops), (none : Option UExpr), ← readPat pat)
      | _ => none
    pure (.struct (← id.toNat?) p (Items.ofList items) (← readBool rest))
  | .list [.atom "enum", .atom id, path, .list (.atom "elems" :: es)] => do
    pure (.enum (← id.toNat?) (← readPath path) (Items.ofList (← es.mapM readElem)))
  | .list [.atom "tuple", .atom id, .atom sp, .list (.atom "elems" :: es)] => do
    pure (.tuple (← id.toNat?) (← readSp sp) (Items.ofList (← es.mapM readElem)))
  | .list [.atom "slice", .atom id, .atom sp, .list (.atom "pats" :: ps)] => do
    pure (.slice (← id.toNat?) (← readSp sp) (Items.ofList (← ps.mapM fun p => do pure (none, none, ← readPat p))))
  | .list [.atom "set", .atom id, .atom sp, .list (.atom "pats" :: ps), .atom rest] => do
    pure (.set (← id.toNat?) (← readSp sp) (Items.ofList (← ps.mapM fun p => do pure (none, none, ← readPat p))) (← readBool rest))
  | .list [.atom "cmp", .atom id, .atom op, .atom sp, e] => do
    pure (.cmp (← id.toNat?) (← readCmp op) (← readSp sp) (← readExpr e))
  | .list [.atom "range", .atom id, e] => do pure (.range (← id.toNat?) (← readExpr e))
  | .list [.atom "regex", .atom id, .atom pat, .atom sp] => do
    pure (.regex (← id.toNat?) (← unhex pat) (← readSp sp))
  | .list [.atom "like", .atom id, e] => do pure (.like (← id.toNat?) (← readExpr e))
  | .list [.atom "wild", .atom id] => do pure (.wild (← id.toNat?))
  | .list [.atom "closure", .atom id, e] => do pure (.closure (← id.toNat?) (← readExpr e))
  | .list [.atom "map", .atom id, .atom sp, .list (.atom "entries" :: es), .atom rest] => do
    let items ← es.mapM fun e => match e with
      | .list [.atom "kv", k, v] => do pure ((none : Option FieldOps), some (← readExpr k), ← readPat v)
      | _ => none
    pure (.map (← id.toNat?) (← readSp sp) (Items.ofList items) (← readBool rest))
  | _ => none
partial def readElem : SExp → Option (Option FieldOps × Option UExpr × Pat)
  | .list [.atom "pos", p] => do pure (none, none, ← readPat p)
  | .list [.atom "idx", ops, p] => do pure (some (← readOps ops), none, ← readPat p)
  | _ => none
end

def showSp (s : Sp) : String := s!"{s.ls}.{s.cs}.{s.le}.{s.ce}"

def showTok (t : Tok) : String :=
  match t.text with
  | .plain s => hex s ++ "@" ++ showSp t.sp
  | .str v => "s:" ++ hex v ++ "@" ++ showSp t.sp

def showToks (ts : List Tok) : String :=
  "(toks" ++ String.join (ts.map fun t => " " ++ showTok t) ++ ")"

end AsModel
