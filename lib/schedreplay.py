"""T5(b): schedule replay.  The real cached_source runs on real threads under a controller that releases
one step at a time (scheduling points behind cfg(assert_struct_verif)); the Lean transition system
(Runtime/Cache.lean, the model C17_cache_inv / C17_own_result / C17_no_deadlock are about) runs the same
schedule; observations after every step, every thread's result and the final cache are compared."""
import os
import shutil

from vlib import CACHE, hexs

PCS = ["wantRead", "reading", "fsRead", "wantWrite", "writing", "returning", "done"]
POINT = {"p1": "reading", "p2": "fsRead", "p3": "wantWrite", "p4": "writing", "p5": "returning", "done": "done"}


class Sim:
    """Mirror of the transition system, used only to enumerate schedules (the oracle is the Lean model)."""

    def __init__(self, paths, fs, warm):
        self.paths, self.fs = paths, fs
        self.cache = {p for p in range(len(fs)) if warm[p] and fs[p]}
        self.pc = ["wantRead"] * len(paths)

    def clone(self):
        s = Sim.__new__(Sim)
        s.paths, s.fs, s.cache, s.pc = self.paths, self.fs, set(self.cache), list(self.pc)
        return s

    def enabled(self, i):
        pc = self.pc[i]
        if pc == "done":
            return False
        if pc == "wantRead":
            return "writing" not in self.pc
        if pc == "wantWrite":
            return "writing" not in self.pc and "reading" not in self.pc
        return True

    def step(self, i):
        pc = self.pc[i]
        p = self.paths[i]
        if pc == "wantRead":
            self.pc[i] = "reading"
        elif pc == "reading":
            self.pc[i] = "done" if p in self.cache else "fsRead"
        elif pc == "fsRead":
            self.pc[i] = "wantWrite" if self.fs[p] else "done"
        elif pc == "wantWrite":
            self.pc[i] = "writing"
        elif pc == "writing":
            self.cache.add(p)
            self.pc[i] = "returning"
        elif pc == "returning":
            self.pc[i] = "done"

    def finished(self):
        return all(x == "done" for x in self.pc)


def all_schedules(sim, limit):
    out = []

    def go(s, acc):
        if len(out) >= limit:
            return
        if s.finished():
            out.append(list(acc))
            return
        for i in range(len(s.pc)):
            if s.enabled(i):
                t = s.clone()
                t.step(i)
                acc.append(i)
                go(t, acc)
                acc.pop()
    go(sim, [])
    return out


def random_schedule(rng, sim, blocked_attempts):
    """Returns (real tokens, model schedule).  With blocked attempts: a thread is released into a lock it
    cannot get, the holder is then run until the lock is free, the blocked thread's arrival is awaited."""
    s = sim.clone()
    real, model = [], []
    while not s.finished():
        en = [i for i in range(len(s.pc)) if s.enabled(i)]
        bl = [i for i in range(len(s.pc)) if s.pc[i] in ("wantRead", "wantWrite") and not s.enabled(i)]
        if blocked_attempts and bl and rng.random() < 0.5:
            j = rng.choice(bl)
            real.append(str(j))            # observed: blocked
            model.append(j)                # model: a blocked thread's turn is skipped
            # run lock holders (only) until j can go; nobody else asks for a lock meanwhile
            while not s.enabled(j):
                holders = [i for i in en if s.pc[i] in ("reading", "writing")]
                h = rng.choice(holders)
                s.step(h)
                real.append(str(h))
                model.append(h)
                en = [i for i in range(len(s.pc)) if s.enabled(i)]
            s.step(j)
            real.append("w%d" % j)
            model.append(j)
            continue
        i = rng.choice(en)
        s.step(i)
        real.append(str(i))
        model.append(i)
    return real, model


CONFIGS = [
    ("same file, cold", [0, 0], [5], [0]),
    ("same file, warm", [0, 0], [5], [1]),
    ("different files, cold", [0, 1], [5, 7], [0, 0]),
    ("one warm, one cold", [0, 1], [5, 7], [1, 0]),
    ("same file, missing", [0, 0], [0], [0]),
    ("one missing, one present", [0, 1], [0, 7], [0, 0]),
    ("three threads, same file, cold", [0, 0, 0], [5], [0]),
    ("three threads, two files", [0, 1, 0], [5, 7], [0, 0]),
]


def run(ck):
    scratch = os.path.join(CACHE, "scratch", "sched-%d" % os.getpid())
    shutil.rmtree(scratch, ignore_errors=True)
    os.makedirs(scratch)
    rng = ck.rng
    try:
        runs = []
        for (name, paths, fs, warm) in CONFIGS:
            sim = Sim(paths, fs, warm)
            if len(paths) == 2:
                scheds = all_schedules(sim, 1000 if ck.tier == "quick" else 5000)
                if ck.tier == "quick" and len(scheds) > 300:
                    scheds = rng.sample(scheds, 300)
                for sc in scheds:
                    runs.append((name, paths, fs, warm, [str(i) for i in sc], sc, False))
            for _ in range((60 if len(paths) == 3 else 0) if ck.tier == "quick" else (1500 if len(paths) == 3 else 0)):
                real, model = random_schedule(rng, sim, False)
                runs.append((name, paths, fs, warm, real, model, False))
            for _ in range(8 if ck.tier == "quick" else 120):
                real, model = random_schedule(rng, sim, True)
                if any(t.startswith("w") for t in real):
                    runs.append((name, paths, fs, warm, real, model, True))
        dots = lambda xs: ".".join(str(x) for x in xs) if xs else "-"
        rreq = ["sched %s %d %s %s %s %s" % (hexs(scratch), k, dots(p), dots(f), dots(w), dots(real)) for k, (_, p, f, w, real, _, _) in enumerate(runs)]
        mreq = ["cachesched %s %s %s %s" % (dots(p), dots(f), dots(w), dots(model)) for (_, p, f, w, _, model, _) in runs]
        impl = ck.rt_batch(rreq)
        model = ck.lean_batch(mreq)

        def agree(im, md):
            i, m = im.split("|"), md.split("|")
            return [POINT.get(x, x) for x in i[0].split(" ")] == m[0].split(" ") and i[1:] == m[1:]
        # a step that looked blocked may only have been slow on a loaded machine: re-run disagreeing schedules patiently
        again = [k for k, (im, md) in enumerate(zip(impl, model)) if not agree(im, md)]
        if again:
            redo = ck.rt_batch(["sched %s %d %s %s %s %s 1500" % (hexs(scratch), 100000 + k, dots(runs[k][1]), dots(runs[k][2]), dots(runs[k][3]), dots(runs[k][4])) for k in again])
            for k, r in zip(again, redo):
                impl[k] = r
            ck.notes.append("schedule replay: %d schedules re-run with a 1.5 s step timeout" % len(again))
        dis = 0
        dist = {}
        for (name, paths, fs, warm, real, msched, blocked), im, md in zip(runs, impl, model):
            dist[name + (" (with a thread released into a held lock)" if blocked else "")] = dist.get(name + (" (with a thread released into a held lock)" if blocked else ""), 0) + 1
            iobs, ires, icache = im.split("|")
            mobs, mres, mcache = md.split("|")
            iobs_l = [POINT.get(x, x) for x in iobs.split(" ")]
            mobs_l = mobs.split(" ")
            desc = dict(configuration=name, thread_files=paths, file_contents=fs, warm=warm, schedule=real, impl=im, model=md)
            own = " ".join(str(fs[p]) if fs[p] else "none" for p in paths)
            if ires == "DEADLOCK":
                ck.report("deadlock", "threads formatting failing assertions concurrently do not all finish under this schedule", desc)
                continue
            if ires != own:
                ck.report("cross-talk:" + name, "a thread got a source text that is not its own file's content", dict(desc, expected_results=own))
                continue
            if iobs_l != mobs_l or ires != mres or icache != mcache:
                dis += 1
                if dis <= 3:
                    ck.report("corr:sched:" + name, "the real cached_source and the transition system disagree under a schedule",
                              dict(desc, broken="correspondence T5(b)/schedule replay; C17_cache_inv, C17_own_result and C17_no_deadlock are about this transition system"), no_input=True)
        ck.corr_record("T5(b) schedule replay (real cached_source on real threads, released step by step at scheduling points, vs the Lean transition system under the same schedule: program counter after every step, blocked steps, results, final cache)",
                       len(runs), len({tuple(r[4]) + tuple(r[1]) + tuple(r[3]) + tuple(r[2]) for r in runs}), dis, dist,
                       samples=[dict(configuration=runs[0][0], schedule=runs[0][4], impl=impl[0], model=model[0])],
                       rule="two-thread configurations: every interleaving (sampled to 300 per configuration in the quick tier); three-thread configurations: seeded random interleavings; plus schedules that release a thread into a lock held by a parked thread and await its arrival once the holder has moved on")
    finally:
        shutil.rmtree(scratch, ignore_errors=True)
