"""T2: the model's expansion (tokens + spans) and node locations vs the real
`expand::expand` output, in process, on the repository's own invocations plus generated
and hand-written patterns.  Results are cached per (repo tree, seed, tier)."""
import json
import os
import random

import corpus
import tgen
from vlib import CACHE, hexs, unhexs, repo_hash

# regex literal texts: valid, invalid, unsupported syntax, oversized programs, empty, long (the macro must treat the text as a text:
# seed C13-12 compiled it during expansion and panicked on an error message of another shape)
REGEX_EDGE = ['x, =~ r"(unclosed"', 'x, =~ r"^\\w{4000}$"', 'x, =~ r"(a{1000}){1000}"', 'x, =~ ""', 'x, =~ r"(?i)abc"', 'x, =~ r"\\p{Greek}+"', 'x, =~ r"(\\d+)\\1"',
              'x, =~ r"(?=a)b"', 'x, =~ "a{2,1}"', 'x, =~ r"[z-a]"', 'x, =~ r"*"', 'x, =~ r"(?P<n>a)(?P<n>b)"', 'x, =~ r"\\u{110000}"', 'x, S { a: =~ r"x{99999999999}" }',
              'x, =~ "' + "a|" * 3000 + 'b"', 'x, =~ r"\\pN{4000}"', 'x, Some(=~ r"(((((((((((a*)*)*)*)*)*)*)*)*)*)*)*")', 'x, =~ r#"\\x{41}"#', 'x, =~ b"bytes"', 'x, =~ r"(?x) a b # comment"']
EDGE = REGEX_EDGE + [
    'x, #(1, > 2, ..)', 'x, #{ "a": 1, k: Some(_), .. }', 'x, #{ "a": =~ "r.x" }',
    'x, S { *b: 5, **c.len(): > 2, d.0.1: |v| v > 1, .. }', 'x, (0: 1, *1: "s", _, 3.x[2].await: ..=5)',
    'x, [1, .., _, 5]', 'x, Some(_, *1: 5)', 'x, Status::Active', 'x, f()', 'x, =~ pat',
    'x, _ { a: 1, 0: 2, b.c: 3, *d: 4, .. }', 'x, #()', 'x, #{}', 'x, #{..}', 'x, ()', 'x, (1,)', 'x, []',
    'x, Foo { a: Bar { b: [Some(1), None] , .. } }', 'x, move |v| v', 'x, != foo(1, 2)', 'x, a::b::C { d: 1 }',
    'x, a::b::C(1)', 'x, _', 'x, _ { .. }', 'x, [..]', 'x, #(..)', 'x + 1, > 2', 'f(a, b).await, Ok(_)',
    'x, S { a: 1, a: > 0, b.c: 2, b.d: 3, .. }', 'x, ((1, 2), [(3, _)], #((4,), ..))',
    'x, S { m.get("k").unwrap(): 1, v[i + 1].0: "s", .. }', 'x, -5..=-1', 'x, ..', 'x, [.., 5]', 'x, [1, ..]',
    'x, [5.., ..=2, 3]', 'x, [..5]', 'x, (.., 1)', 'x, Some(..)', 'x, #{ "k": .., .. }', 'x, S { r#type: 1, r#match.len(): 2, .. }',
    'x, E::V { r#fn: "s" }', 'x, _ { r#type: 1, .. }', 'x, _ { 4294967295: 1, .. }', 'x, S { a.4294967295: 1, .. }', 'x, (4294967295: 1)',
    'x, #{ "k": _ { a: 1 } }', 'x, Some(_ { a: 1 })', 'x, [_ { a: 1 }]', 'x, (_ { a: 1 }, 2)', 'x, #(_ { a: 1 })', 'x, S { f: _ { a: 1 } }', 'x, #{ "k": [_ { a: 1 }], .. }', 'x, _ { f: _ { a: 1 }, .. }',
    # long pattern texts, ASCII and multi-byte, of lengths around every plausible cut-off (a node stores the text of its pattern)
    ] + ['x, S { a: "%s" }' % (ch * n) for ch in ("a", "é", "日", "😀") for n in (40, 43, 62, 64, 85, 126, 128, 130, 256, 300)] + [
    'x, S { a: == "%s", b: > %s, c: =~ r"%s", d: |v| v == "%s" }' % ("日" * 50, "9" * 140, "ü" * 70, "ж" * 90), 'x, #{ "%s": 1, .. }' % ("é" * 100), "x, %s::V" % "::".join(["m"] * 70),
    'x, S { inner.inner.id: 1, next.next.next: 2, a.b.a: 3, .. }', 'x, _ { inner.inner.id: 1, 0.0: 2, .. }', 'x, (0.0: 1, 1.1.1: 2)', 'x, S { a.a(): 1, b.m().b: 2, *c.c: 3, .. }',
    'x, =~ ("re")', 'x, =~ (("re"))', 'x, =~ (re)', 'x, S { a.m(1, 2, 3): 4, b.n("x", y, z + 1).0: 5, .. }', 'x, (p)', 'x, ((p))', 'x, (_)', 'x, S { a: (> 5), b: (_), c: ((1, 2)) }',
    'x, #(5.., 1)', 'x, #(1, 5..)', 'x, #(1..3, ..)', 'x, [5.., 1]', 'x, S { r#type: 1, r#type.r#match: 2, .. }', 'x, S { a.0.1: 1, a.1.0: 2, a.2.0.1: 3, a.clone().1.0: 4, .. }', 'x, (0.1.0: 1, 1.0: 2)',
    'x, S { t.0.1: 1, t.1.0.2: 2, .. }', 'x, S { a: 1, }', 'x, S { a: 1, .., }', 'x, #(1, 2, ..,)', 'x, [1, 2,]', 'x, (1, 2,)', 'x, #{ "a": 1, }',
    # nesting depth 10 of every composite (parsing a tuple / variant element is speculative: each level parses twice)
    "x, " + "(" * 10 + "1, 2" + ",)" * 10,
    "x, " + "Some(" * 10 + "> 1" + ")" * 10,
    "x, " + "[" * 10 + "1, .." + "]" * 10,
    "x, " + "#(" * 8 + "1, .." + ")" * 8,
    "x, " + "S { a: " * 10 + "1" + ", .. }" * 10,
    "x, " + "_ { a: " * 10 + "1" + ", .. }" * 10,
    "x, " + '#{ "k": ' * 8 + "1" + ", .. }" * 8,
    "x, " + "(0: " * 6 + "1" + ",)" * 6,
]


# An "expression zoo": user expressions of every syntactic class syn knows, in every place of a pattern where an expression (or
# something that may be taken for one) can stand.  The crate's parser sees them only through syn, but its own dispatch looks at
# their first tokens (`!`, `<`, `-`, `&`, `*`, `(`, `[`, `{`, `|`, `move`, a path, a literal, `..`): what is accepted, as which
# form, with which spans and ids must be what the parser model says.
ZOO_EXPRS = ["-5", "!flag", "&x", "&mut x", "*p", "x as u8", "a + b * 2", "x.len()", "f(1)(2)", "vec![1, 2]", 'format!("{}", 1)', "{ 1 }",
             "if c { 1 } else { 2 }", "match k { _ => 1 }", "unsafe { g() }", "a::<u8>::B", "<T as Tr>::C", "Vec::<Vec<u8>>::new()", "x?", "y.await",
             "|a| a", "move || 1", "|a: &u8, b| a", "(1, 2)", "(1)", "[1, 2]", "[0; 3]", "S { a: 1 }", "'c'", 'b"x"', "1..2", "a..=b", "..b", "a..",
             'r#"s"#', "r#type", "self", "Self::X", "crate::X", "super::X", "x.0", "x.0.1", "x[0]", "true", "1e3", "0x1f", "1_000u64", "async { 1 }",
             "const { 1 }", "x = 5", "a && b || c", "a < b", "a == b", "a as f64 > 0.5", "a >> 1", "return 1", "break", "loop { }", "-x.y", "&*z", "!!w",
             "a.b::<u8>()", "m!{ 1 }", "m!(1)", "x.await?", "- 5", "5 .. 6", "K", "k", "_x", "1 + ", "+ 1"]
ZOO_FORMS = ["{E}", "== {E}", "> {E}", "!= {E}", "<= {E}", "=~ {E}", '#{{ {E}: 1 }}', '#{{ {E}: 1, .. }}', "S {{ f[{E}]: 1, .. }}", "S {{ f.m({E}): 1, .. }}", "S {{ f.m(1, {E}): 1, .. }}",
             "|v| {E}", "S {{ a: {E} }}", "S {{ a: {E}, b: 2, .. }}", "({E}, 1)", "(0: {E}, 1)", "[{E}]", "[{E}, ..]", "#({E})", "#({E}, ..)", "Some({E})", "_ {{ a: {E}, .. }}",
             '#{{ "k": {E} }}', "{E}..=9", "1..{E}"]
ZOO = ["x, " + f.format(E=e) for e in ZOO_EXPRS for f in ZOO_FORMS]


def gen_texts(rng, n):
    out = []
    for _ in range(n):
        g = tgen.Gen(rng)
        t = g.gen_type(rng.choice([1, 2, 2, 3]))
        v = g.gen_val(t)
        pg = tgen.PatGen(g, rng)
        out.append("v, " + pg.pat(v, t))
    return out


def _split_nodes_body(toks):
    """Index of the `const __PATTERN_TREE` token: node definitions come before it."""
    marker = hexs("__PATTERN_TREE")
    for i, t in enumerate(toks):
        if t.split("@")[0] == marker:
            return i
    return len(toks)


def node_table(toks):
    """Reads the pattern-node definitions out of an expansion's token list: node -> (kind, children, rest flag, parent, position).
    Returns None when the definitions do not have the shape this reader knows (then only the token-level comparison speaks)."""
    names = []
    for t in toks:
        h = t.split("@")[0]
        names.append(("s:" + unhexs(h[2:])) if h.startswith("s:") else unhexs(h))
    table = {}
    i = 0
    n = len(names)
    try:
        while i < n:
            if names[i] == "static" and i + 1 < n and names[i + 1].startswith("__PATTERN_NODE_"):
                node = names[i + 1]
                j = i + 2
                while names[j] != "NodeKind":
                    j += 1
                while names[j] in ("NodeKind", ":"):
                    j += 1
                kind = names[j]
                children, rest, parent = [], None, None
                j += 1
                while names[j] != "parent":
                    if names[j].startswith("__PATTERN_NODE_"):
                        children.append(names[j])
                    if names[j] == "rest" and names[j + 1] == ":":
                        rest = names[j + 2]
                    if names[j] == "op" and names[j + 1] == ":":
                        k2 = j + 2
                        while names[k2] != "ComparisonOp":
                            k2 += 1
                        kind += ":" + names[k2 + 3]
                    j += 1
                j += 2
                if names[j] == "Some":
                    while not names[j].startswith("__PATTERN_NODE_"):
                        j += 1
                    parent = names[j]
                loc = []
                for key in ("line_start", "col_start", "line_end", "col_end"):
                    while names[j] != key:
                        j += 1
                    loc.append(names[j + 2])
                table[node] = (kind, tuple(children), rest, parent, tuple(loc))
                i = j
            elif names[i] == "__PATTERN_TREE":
                break
            i += 1
    except (IndexError, ValueError):
        return None
    return table


def run(ck, n_gen=None):
    """Returns dict(stats, mismatches=[dict(text, part, detail)]) ; part in locations|nodes|body|validity|status."""
    n_gen = n_gen if n_gen is not None else (600 if ck.tier == "quick" else 6000)
    import hashlib
    cdir = os.path.join(CACHE, "t2")
    os.makedirs(cdir, exist_ok=True)
    rng = random.Random("t2/%d" % ck.seed)
    texts = [t for _, t in corpus.repo_invocations()]
    n_corpus = len(texts)
    texts += EDGE + ZOO + gen_texts(rng, n_gen)
    # the cache is keyed by the tree, by the inputs and by the model (driver binary)
    h = hashlib.sha256("\n".join(texts).encode())
    try:
        h.update(open(os.path.join(CACHE, "..", "lean", ".lake", "build", "bin", "driver"), "rb").read())
    except OSError:
        pass
    h.update(open(os.path.abspath(__file__), "rb").read())   # the comparison code itself
    cpath = os.path.join(cdir, "%s-%s.json" % (repo_hash(), h.hexdigest()[:16]))
    if os.path.exists(cpath):
        return json.load(open(cpath))
    outs = ck.rt_batch(["run " + hexs(t) for t in texts], binary="inproc", harness="inproc")
    if outs and outs[0] == "unavailable":
        # the in-process harness does not build on this tree (reported once by build_harness): nothing to compare, nothing cached
        return dict(stats={"corpus": n_corpus, "edge": len(EDGE), "generated": n_gen, "accepted": 0, "rejected": 0, "panicked": 0, "tokens_compared": 0, "unavailable": len(texts)},
                    mismatches=[], n_mismatches=0)
    lreq, idx = [], []
    stats = {"corpus": n_corpus, "edge": len(EDGE), "zoo": len(ZOO), "generated": n_gen, "accepted": 0, "rejected": 0, "panicked": 0, "tokens_compared": 0}
    mism = []
    for k, o in enumerate(outs):
        f = o.split("\t")
        if f[0] == "ok":
            stats["accepted"] += 1
            lreq.append("expand\t%s\t%s" % (f[1], f[2]))
            idx.append(k)
            if f[5] != "valid-block":
                mism.append(dict(text=texts[k], part="validity", detail="the expansion does not parse as a Rust block", ast=f[1][:20000]))
        elif f[0] == "panic":
            stats["panicked"] += 1
            # the model must predict the panic
            if len(f) > 3:
                lreq.append("expand\t%s\t%s" % (f[3], "(toks)"))
                idx.append(k)
        else:
            stats["rejected"] += 1
    louts = ck.lean_batch(lreq) if lreq else []

    def show(ts):
        r = []
        for t in ts:
            h, sp = t.split("@")
            r.append((("s:" + unhexs(h[2:])) if h.startswith("s:") else unhexs(h)) + "@" + sp)
        return " ".join(r)

    for k, lo in zip(idx, louts):
        f = outs[k].split("\t")
        g = lo.split("\t")
        if f[0] == "panic":
            if g[0] != "panic":
                mism.append(dict(text=texts[k], part="status", detail="the implementation panics during expansion, the model does not: " + unhexs(f[2])))
            continue
        if g[0] != "ok":
            mism.append(dict(text=texts[k], part="status", detail="model answered %s for an accepted input" % g[0]))
            continue
        if g[1] != f[4]:
            mism.append(dict(text=texts[k], part="locations", detail="impl %s | model %s" % (f[4], g[1])))
        a = f[6][6:-1].split(" ")
        b = g[2][6:-1].split(" ")
        stats["tokens_compared"] += len(a)
        # implementation vs specification, directly on the real tokens: every node referred to is
        # defined, and defined exactly once
        names = [unhexs(t.split("@")[0]) if not t.startswith("s:") else "" for t in a]
        defined, referenced = [], set()
        for i, nme in enumerate(names):
            if nme.startswith("__PATTERN_NODE_"):
                if i > 0 and names[i - 1] == "static":
                    defined.append(nme)
                else:
                    referenced.add(nme)
        # ... and the tree is a tree: a node's parent lists it among its children, and every child a node lists
        # names that node as its parent (children = node references inside `kind: ..`, up to `parent:`)
        seg_child, seg_parent = {}, {}
        cur = None
        in_parent = False
        for i, nme in enumerate(names):
            if nme == "static" and i + 1 < len(names) and names[i + 1].startswith("__PATTERN_NODE_"):
                cur = names[i + 1]
                seg_child[cur] = []
                seg_parent[cur] = None
                in_parent = False
            elif cur is not None and nme == "parent":
                in_parent = True
            elif cur is not None and nme in ("line_start",):
                in_parent = False
            elif cur is not None and nme.startswith("__PATTERN_NODE_") and not (i > 0 and names[i - 1] == "static"):
                if in_parent:
                    seg_parent[cur] = nme
                else:
                    seg_child[cur].append(nme)
            elif nme == "__PATTERN_TREE":
                cur = None
        tree_bad = []
        for n_, par in seg_parent.items():
            if par is not None and n_ not in seg_child.get(par, []):
                tree_bad.append("%s has parent %s, which does not list it among its children %s" % (n_, par, seg_child.get(par)))
        for n_, chs in seg_child.items():
            for c_ in chs:
                if seg_parent.get(c_) != n_:
                    tree_bad.append("%s lists %s as a child, whose parent link is %s" % (n_, c_, seg_parent.get(c_)))
            if len(chs) != len(set(chs)):
                tree_bad.append("%s lists a child twice: %s" % (n_, chs))
        if tree_bad:
            mism.append(dict(text=texts[k], part="wellformed", detail="the node tree does not mirror the pattern: " + "; ".join(tree_bad[:3])))
        if len(defined) != len(set(defined)) or not referenced <= set(defined):
            mism.append(dict(text=texts[k], part="wellformed",
                             detail="node constants defined: %s; referred to but not defined: %s; defined more than once: %s" % (
                                 sorted(set(defined)), sorted(referenced - set(defined)), sorted({d for d in defined if defined.count(d) > 1}))))
        ta, tb = node_table(a), node_table(b)
        if ta is not None and tb is not None and ta != tb:
            diffs = ["%s: recorded %s | as written %s" % (k_, ta.get(k_), tb.get(k_)) for k_ in sorted(set(ta) | set(tb)) if ta.get(k_) != tb.get(k_)]
            mism.append(dict(text=texts[k], part="tree", detail="(kind, children, rest, parent, position) per node - " + "; ".join(diffs[:4])))
        if a != b:
            i = next((i for i, (x, y) in enumerate(zip(a, b)) if x != y), min(len(a), len(b)))
            part = "nodes" if i < _split_nodes_body(a) else "body"
            mism.append(dict(text=texts[k], part=part,
                             detail="token %d of %d/%d: impl [%s] | model [%s]" % (i, len(a), len(b), show(a[max(0, i - 6):i + 6]), show(b[max(0, i - 6):i + 6]))))
    # ---- the same in the regime a stable compiler runs the macro in: Span::join fails.  The real parser and generator are run again
    # with joins failing (vendored proc-macro2, VERIF_NOJOIN); the model is given the JOINED syntax tree and applies its own
    # `noJoin` transformation (Nodes.lean) - locations and every token with its span must agree.
    envnj = dict(os.environ)
    envnj["VERIF_NOJOIN"] = "1"
    outs_nj = ck.rt_batch(["run " + hexs(t) for t in texts], binary="inproc", harness="inproc", env=envnj)
    nreq, nidx = [], []
    for k, (o, onj) in enumerate(zip(outs, outs_nj)):
        f, fn = o.split("\t"), onj.split("\t")
        if f[0] != fn[0]:
            mism.append(dict(text=texts[k], part="nojoin-status", detail="with joins failing the front end answers %s instead of %s" % (fn[0], f[0])))
        elif f[0] == "ok":
            nreq.append("expandnj\t%s\t%s" % (f[1], f[2]))
            nidx.append(k)
    nouts = ck.lean_batch(nreq) if nreq else []
    stats["nojoin_compared"] = len(nidx)
    stats["nojoin_tokens_compared"] = 0
    stats["nojoin_locations_that_differ_from_joined"] = 0
    for k, lo in zip(nidx, nouts):
        f, fn = outs[k].split("\t"), outs_nj[k].split("\t")
        g = lo.split("\t")
        if g[0] != "ok":
            mism.append(dict(text=texts[k], part="nojoin-status", detail="model answered %s" % g[0]))
            continue
        if fn[4] != f[4]:
            stats["nojoin_locations_that_differ_from_joined"] += 1
        if g[1] != fn[4]:
            mism.append(dict(text=texts[k], part="nojoin-locations", detail="impl (joins failing) %s | model noJoin %s" % (fn[4], g[1])))
        a = fn[6][6:-1].split(" ")
        b = g[2][6:-1].split(" ")
        stats["nojoin_tokens_compared"] += len(a)
        if a != b:
            i = next((i for i, (x, y) in enumerate(zip(a, b)) if x != y), min(len(a), len(b)))
            part = "nojoin-nodes" if i < _split_nodes_body(a) else "nojoin-body"
            mism.append(dict(text=texts[k], part=part,
                             detail="joins failing, token %d of %d/%d: impl [%s] | model [%s]" % (i, len(a), len(b), show(a[max(0, i - 6):i + 6]), show(b[max(0, i - 6):i + 6]))))
    res = dict(stats=stats, mismatches=mism[:200], n_mismatches=len(mism))
    json.dump(res, open(cpath, "w"))
    files = sorted((os.path.getmtime(os.path.join(cdir, f)), f) for f in os.listdir(cdir))
    for _, f in files[:-20]:
        os.remove(os.path.join(cdir, f))
    return res


def record(ck, res, parts, what):
    """Adds the T2 tie to the evidence; returns the mismatches in `parts`."""
    # a part asked for is asked for in both regimes (spans joined in process; joins failing as inside a stable compiler)
    mm = [m for m in res["mismatches"] if m["part"] in parts or (m["part"].startswith("nojoin-") and m["part"][7:] in parts)]
    st = res["stats"]
    ck.corr_record("T2 expansion tokens (%s): real expand::expand output vs AsModel.Render, token by token and span by span, in two regimes: spans joined, and Span::join failing as inside a stable compiler (there the model is given the joined syntax tree and applies its own noJoin transformation)" % what,
                   st["accepted"] + st["panicked"] + st.get("nojoin_compared", 0), st["accepted"], len(mm),
                   {k: v for k, v in st.items()},
                   samples=[dict(invocation=m["text"][:200], part=m["part"], detail=m["detail"][:300]) for m in mm[:2]] or
                           [dict(note="all %d accepted invocations agree (%d tokens compared)" % (st["accepted"], st["tokens_compared"]))],
                   rule="every assert_struct! invocation in the repository's tests, examples and docs (%d) + %d hand-written edge patterns + %d expression-zoo inputs (user expressions of every syntactic class in every place an expression can stand) + %d seeded generated patterns; accepted inputs are distinct texts" % (st["corpus"], st["edge"], st.get("zoo", 0), st["generated"]))
    return mm
