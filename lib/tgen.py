"""Type-directed generator of (declarations, type, value, pattern) triples for the T3 tie
(DESIGN.md section 3.8).  Everything derives from one random.Random instance.

Types   : ('int', name) ('bool',) ('string',) ('strref',) ('char',) ('f64',) ('option', t) ('result', t, e)
          ('vec', t) ('tuple', [t]) ('struct', name) ('enum', name) ('box', t) ('map', kt, vt) ('set', t)
Values  : ('int', n) ('bool', b) ('str', s) ('chr', c) ('dec', m) ('tuple', [v]) ('seq', [v]) ('setv', [v])
          ('map', [k], [v]) ('box', v) ('adt', ctor, names, vals, tyname, kind)   kind in unit|tuple|named
"""

from vlib import hexs

STRS = ["", "a", "abc", "Bob", "hello world", 'say "hi"', "tab\there", "back\\slash", "line\nbreak", "é", "x'y", "alice@example.com",
        # combining marks, a joiner, a variation selector (Debug escapes them), and text that merely LOOKS like such an escape
        "cafe\u0301", "\u0928\u092e\u0938\u094d\u0924\u0947", "a\u200db", "x\ufe0f", "cafe\\u{301}", "\\u{200d}"]
INTS = [-3, -1, 0, 1, 2, 3, 4, 5, 7, 10, 42, 100]


def squash(s):
    return s.replace(" ", "").replace("\n", "").replace("\t", "")


class Gen:
    def __init__(self, rng, allow_regex=True):
        self.rng = rng
        self.structs = {}
        self.enums = {}
        self.n = 0
        self.allow_regex = allow_regex

    # ------------------------------------------------------------------ types
    def fresh(self, p):
        self.n += 1
        return "%s%d" % (p, self.n)

    def gen_type(self, depth, allow=("atom", "option", "result", "vec", "tuple", "struct", "enum", "map", "set")):
        r = self.rng
        kinds = [k for k in allow]
        if depth <= 0:
            kinds = ["atom"]
        k = r.choice(kinds + ["atom"])
        if k == "atom":
            return r.choice([("int", "i32"), ("int", "i32"), ("int", "u8"), ("int", "i64"), ("bool",), ("string",), ("string",), ("strref",), ("char",), ("f64",), ("po",)])
        if k == "option":
            return ("option", self.gen_type(depth - 1))
        if k == "result":
            return ("result", self.gen_type(depth - 1), self.gen_type(0))
        if k == "vec":
            return ("vec", self.gen_type(depth - 1, ("atom", "option", "struct", "tuple", "enum")))
        if k == "tuple":
            return ("tuple", [self.gen_type(depth - 1) for _ in range(r.randint(2, 3))])
        if k == "map":
            return ("map", r.choice([("string",), ("int", "i32")]), self.gen_type(depth - 1, ("atom", "option", "vec", "struct")))
        if k == "set":
            return ("set", r.choice([("int", "i32"), ("string",)]))
        if k == "struct":
            name = self.fresh("S")
            fields = []
            for i in range(r.randint(1, 4)):
                ft = self.gen_type(depth - 1)
                if r.random() < 0.12:
                    ft = ("box", r.choice([("int", "i32"), ("string",), ("bool",), ("int", "i64")]))
                fn_ = "f%d" % i if r.random() < 0.7 else r.choice(["name", "age", "items", "id", "kind"]) + str(i)
                if r.random() < 0.06 and not any(f[0].startswith("r#") for f in fields):
                    fn_ = r.choice(["r#type", "r#match", "r#fn", "r#struct"])   # a raw identifier (a keyword as a field name)
                fields.append((fn_, ft))
            self.structs[name] = fields
            return ("struct", name)
        if k == "enum":
            name = self.fresh("E")
            vs = []
            for i in range(r.randint(2, 3)):
                vk = r.choice(["unit", "tuple", "named"])
                if vk == "unit":
                    vs.append(("V%d" % i, "unit", None))
                elif vk == "tuple":
                    vs.append(("V%d" % i, "tuple", [self.gen_type(depth - 1) for _ in range(r.randint(1, 3))]))
                else:
                    vs.append(("V%d" % i, "named", [("g%d" % j, self.gen_type(depth - 1)) for j in range(r.randint(1, 3))]))
            self.enums[name] = vs
            return ("enum", name)
        raise ValueError(k)

    def rust_type(self, t):
        k = t[0]
        if k == "int":
            return t[1]
        if k == "bool":
            return "bool"
        if k == "string":
            return "String"
        if k == "strref":
            return "&'static str"
        if k == "char":
            return "char"
        if k == "f64":
            return "f64"
        if k == "po":
            return "Po"
        if k == "option":
            return "Option<%s>" % self.rust_type(t[1])
        if k == "result":
            return "Result<%s, %s>" % (self.rust_type(t[1]), self.rust_type(t[2]))
        if k == "vec":
            return "Vec<%s>" % self.rust_type(t[1])
        if k == "tuple":
            return "(%s)" % ", ".join(self.rust_type(x) for x in t[1])
        if k in ("struct", "enum"):
            return t[1]
        if k == "box":
            return "Box<%s>" % self.rust_type(t[1])
        if k == "map":
            return "BTreeMap<%s, %s>" % (self.rust_type(t[1]), self.rust_type(t[2]))
        if k == "set":
            return "BTreeSet<%s>" % self.rust_type(t[1])
        raise ValueError(t)

    def decls(self):
        out = []
        for n, fs in self.structs.items():
            out.append("#[derive(Debug, Clone, PartialEq)]\nstruct %s { %s }" % (n, ", ".join("%s: %s" % (f, self.rust_type(t)) for f, t in fs)))
        for n, vs in self.enums.items():
            parts = []
            for (vn, vk, pl) in vs:
                if vk == "unit":
                    parts.append(vn)
                elif vk == "tuple":
                    parts.append("%s(%s)" % (vn, ", ".join(self.rust_type(x) for x in pl)))
                else:
                    parts.append("%s { %s }" % (vn, ", ".join("%s: %s" % (f, self.rust_type(x)) for f, x in pl)))
            out.append("#[derive(Debug, Clone, PartialEq)]\nenum %s { %s }" % (n, ", ".join(parts)))
        return "\n".join(out)

    # ------------------------------------------------------------------ values
    def gen_val(self, t):
        r = self.rng
        k = t[0]
        if k == "int":
            n = r.choice(INTS)
            if t[1] == "u8":
                n = abs(n)
            return ("int", n)
        if k == "bool":
            return ("bool", r.random() < 0.5)
        if k in ("string", "strref"):
            return ("str", r.choice(STRS))
        if k == "char":
            return ("chr", r.choice("abxyz09 é'"))
        if k == "f64":
            return ("dec", r.choice([-250, -100, 0, 25, 50, 100, 150, 175, 200, 1000]))
        if k == "po":
            return ("adt", "Po", [], [("int", r.choice([0, 1, 2, 3])), ("int", r.choice([0, 1, 2, 3]))], "Po", "tuple")
        if k == "option":
            if r.random() < 0.3:
                return ("adt", "None", [], [], "Option", "unit")
            return ("adt", "Some", [], [self.gen_val(t[1])], "Option", "tuple")
        if k == "result":
            if r.random() < 0.6:
                return ("adt", "Ok", [], [self.gen_val(t[1])], "Result", "tuple")
            return ("adt", "Err", [], [self.gen_val(t[2])], "Result", "tuple")
        if k == "vec":
            return ("seq", [self.gen_val(t[1]) for _ in range(r.choice([0, 1, 2, 2, 3, 4]))])
        if k == "tuple":
            return ("tuple", [self.gen_val(x) for x in t[1]])
        if k == "struct":
            fs = self.structs[t[1]]
            return ("adt", t[1], [f for f, _ in fs], [self.gen_val(ft) for _, ft in fs], t[1], "named")
        if k == "enum":
            vn, vk, pl = r.choice(self.enums[t[1]])
            if vk == "unit":
                return ("adt", vn, [], [], t[1], "unit")
            if vk == "tuple":
                return ("adt", vn, [], [self.gen_val(x) for x in pl], t[1], "tuple")
            return ("adt", vn, [f for f, _ in pl], [self.gen_val(x) for _, x in pl], t[1], "named")
        if k == "box":
            return ("box", self.gen_val(t[1]))
        if k == "map":
            keys = []
            for _ in range(r.choice([0, 1, 2, 3])):
                kv = self.gen_val(t[1])
                if kv not in keys:
                    keys.append(kv)
            keys.sort(key=lambda v: v[1])
            return ("map", keys, [self.gen_val(t[2]) for _ in keys])
        if k == "set":
            vs = []
            for _ in range(r.choice([0, 1, 2, 3, 4])):
                v = self.gen_val(t[1])
                if v not in vs:
                    vs.append(v)
            vs.sort(key=lambda v: v[1])
            return ("setv", vs)
        raise ValueError(t)

    def perturb(self, v, t, p=0.35):
        """A value of the same type that differs from v in some places."""
        r = self.rng
        if r.random() > p and v[0] not in ("tuple", "adt", "seq", "map", "box", "setv"):
            return v
        k = v[0]
        if k == "int":
            d = r.choice([-1, 1, 1, 2, 10])
            n = v[1] + d
            if t[1] == "u8":
                n = max(0, min(255, abs(n)))
            return ("int", n)
        if k == "bool":
            return ("bool", not v[1])
        if k == "str":
            return ("str", r.choice([v[1] + "x", v[1][:-1], r.choice(STRS)]))
        if k == "chr":
            return ("chr", r.choice("abxyz"))
        if k == "dec":
            return ("dec", v[1] + r.choice([-25, 25, 50, 100]))
        if k == "tuple":
            return ("tuple", [self.perturb(x, tt, p) for x, tt in zip(v[1], t[1])])
        if k == "box":
            return ("box", self.perturb(v[1], t[1], p))
        if k == "seq":
            vs = [self.perturb(x, t[1], p) for x in v[1]]
            if r.random() < 0.2:
                vs = vs[:-1] if vs and r.random() < 0.5 else vs + [self.gen_val(t[1])]
            return ("seq", vs)
        if k == "setv":
            return self.gen_val(t) if r.random() < 0.5 else v
        if k == "map":
            ks, vs = list(v[1]), [self.perturb(x, t[2], p) for x in v[2]]
            if ks and r.random() < 0.2:
                ks.pop()
                vs.pop()
            return ("map", ks, vs)
        if k == "adt" and t[0] == "po":
            return ("adt", "Po", [], [("int", max(0, v[3][0][1] + r.choice([-1, 0, 1]))), ("int", max(0, v[3][1][1] + r.choice([-1, 0, 1])))], "Po", "tuple")
        if k == "adt":
            if t[0] in ("option", "result", "enum") and r.random() < 0.25:
                return self.gen_val(t)
            if t[0] == "option":
                return v if v[1] == "None" else ("adt", "Some", [], [self.perturb(v[3][0], t[1], p)], "Option", "tuple")
            if t[0] == "result":
                return ("adt", v[1], [], [self.perturb(v[3][0], t[1] if v[1] == "Ok" else t[2], p)], "Result", "tuple")
            if t[0] == "struct":
                fts = [ft for _, ft in self.structs[t[1]]]
            else:
                vn, vk, pl = [x for x in self.enums[t[1]] if x[0] == v[1]][0]
                fts = [] if vk == "unit" else (list(pl) if vk == "tuple" else [x[1] for x in pl])
            return ("adt", v[1], v[2], [self.perturb(x, ft, p) for x, ft in zip(v[3], fts)], v[4], v[5])
        return v

    def rust_expr(self, v, t):
        k = t[0]
        if k == "int":
            return "%d%s" % (v[1], "" if v[1] >= 0 else "")
        if k == "bool":
            return "true" if v[1] else "false"
        if k == "string":
            return "%s.to_string()" % rust_str(v[1])
        if k == "strref":
            return rust_str(v[1])
        if k == "char":
            return rust_chr(v[1])
        if k == "f64":
            return dec_str(v[1])
        if k == "po":
            return "Po(%d, %d)" % (v[3][0][1], v[3][1][1])
        if k == "option":
            return "None" if v[1] == "None" else "Some(%s)" % self.rust_expr(v[3][0], t[1])
        if k == "result":
            return "%s(%s)" % (v[1], self.rust_expr(v[3][0], t[1] if v[1] == "Ok" else t[2]))
        if k == "vec":
            return "vec![%s]" % ", ".join(self.rust_expr(x, t[1]) for x in v[1])
        if k == "tuple":
            return "(%s)" % ", ".join(self.rust_expr(x, tt) for x, tt in zip(v[1], t[1]))
        if k == "struct":
            fs = self.structs[t[1]]
            return "%s { %s }" % (t[1], ", ".join("%s: %s" % (f, self.rust_expr(x, ft)) for (f, ft), x in zip(fs, v[3])))
        if k == "enum":
            vn, vk, pl = [x for x in self.enums[t[1]] if x[0] == v[1]][0]
            if vk == "unit":
                return "%s::%s" % (t[1], vn)
            if vk == "tuple":
                return "%s::%s(%s)" % (t[1], vn, ", ".join(self.rust_expr(x, tt) for x, tt in zip(v[3], pl)))
            return "%s::%s { %s }" % (t[1], vn, ", ".join("%s: %s" % (f, self.rust_expr(x, ft)) for (f, ft), x in zip(pl, v[3])))
        if k == "box":
            return "Box::new(%s)" % self.rust_expr(v[1], t[1])
        if k == "map":
            return "BTreeMap::from([%s])" % ", ".join("(%s, %s)" % (self.rust_expr(a, t[1]), self.rust_expr(b, t[2])) for a, b in zip(v[1], v[2]))
        if k == "set":
            return "BTreeSet::from([%s])" % ", ".join(self.rust_expr(a, t[1]) for a in v[1])
        raise ValueError(t)


def rust_str(s):
    out = '"'
    for c in s:
        if c == '"':
            out += '\\"'
        elif c == "\\":
            out += "\\\\"
        elif c == "\n":
            out += "\\n"
        elif c == "\t":
            out += "\\t"
        else:
            out += c
    return out + '"'


def rust_chr(c):
    if c == "'":
        return "'\\''"
    if c == "\\":
        return "'\\\\'"
    return "'%s'" % c


def dec_str(m):
    neg = m < 0
    a = abs(m)
    ip, fp = a // 100, a % 100
    if fp == 0:
        body = "%d.0" % ip
    elif fp % 10 == 0:
        body = "%d.%d" % (ip, fp // 10)
    else:
        body = "%d.%02d" % (ip, fp)
    return ("-" if neg else "") + body


def sexp(v):
    k = v[0]
    if k == "int":
        return "(int %d)" % v[1]
    if k == "bool":
        return "(bool %s)" % ("true" if v[1] else "false")
    if k == "str":
        return "(str %s)" % hexs(v[1])
    if k == "chr":
        return "(chr %s)" % hexs(v[1])
    if k == "dec":
        return "(dec %d)" % v[1]
    if k == "tuple":
        return "(tuple %s)" % " ".join(sexp(x) for x in v[1])
    if k == "seq":
        return "(seq %s)" % " ".join(sexp(x) for x in v[1])
    if k == "setv":
        return "(setv %s)" % " ".join(sexp(x) for x in v[1])
    if k == "map":
        return "(map (keys %s) (vals %s))" % (" ".join(sexp(x) for x in v[1]), " ".join(sexp(x) for x in v[2]))
    if k == "box":
        return "(box %s)" % sexp(v[1])
    if k == "adt":
        return "(adt %s (names %s) (vals %s))" % (hexs(v[1]), " ".join(hexs(n) for n in v[2]), " ".join(sexp(x) for x in v[3]))
    raise ValueError(v)


class PatGen:
    """Patterns derived from a value (so that, unperturbed, they match), with a random
    choice of form at every node."""

    def __init__(self, gen, rng, forms=None, root_is_ref=True):
        self.g = gen
        self.rng = rng
        self.meanings = []
        self.forms_used = {}
        self.forms = forms
        self.root_is_ref = root_is_ref
        self.force = None          # form of the next atom pattern
        self.force_shape = None    # shape of the next range pattern

    def use(self, f):
        self.forms_used[f] = self.forms_used.get(f, 0) + 1

    def mval(self, text, v):
        self.meanings.append("(v %s %s)" % (hexs(squash(text)), sexp(v)))

    def mrange(self, text, lo, hi, incl):
        self.meanings.append("(r %s %s %s %s)" % (hexs(squash(text)), "none" if lo is None else sexp(lo), "none" if hi is None else sexp(hi), "true" if incl else "false"))

    def mpred(self, text, pred):
        self.meanings.append("(p %s %s)" % (hexs(squash(text)), pred))

    def meanings_sexp(self):
        return "(meanings %s)" % " ".join(self.meanings)

    # -- leaves
    def lit(self, v, t):
        k = t[0]
        if k == "int":
            # spelling variety: type suffix, digit separators, zero prefix, hexadecimal (the value is the same)
            c = self.rng.random() if getattr(self, "spellings", True) else 1.0
            a = abs(v[1])
            if c < 0.05 and t[1] in ("i32", "u8", "i64", "usize"):
                body = "%d%s" % (a, t[1])
            elif c < 0.09:
                body = "%d_%03d" % (a // 1000, a % 1000) if a >= 1000 else "%d_" % a
            elif c < 0.12:
                body = "0x%X" % a
            elif c < 0.14 and a < 10:
                body = "0%d" % a
            else:
                body = "%d" % a
            return body if v[1] >= 0 else "-" + body
        if k == "bool":
            return "true" if v[1] else "false"
        if k in ("string", "strref"):
            # raw-string spellings where the content allows them
            if getattr(self, "spellings", True) and self.rng.random() < 0.12 and not any(ch in v[1] for ch in '"\\\n\r\t') and v[1].isprintable():
                return ('r"%s"' if self.rng.random() < 0.6 else 'r#"%s"#') % v[1]
            return rust_str(v[1])
        if k == "char":
            return rust_chr(v[1])
        if k == "f64":
            return dec_str(v[1])
        raise ValueError(t)

    def po_pat(self, v):
        r = self.rng
        f = r.choice(["eq", "ne", "lt", "le", "gt", "ge", "lt", "ge"])
        if self.forms:
            f = r.choice([x for x in ["eq", "ne", "lt", "le", "gt", "ge"] if x in self.forms] or ["eq"])
        self.use(f)
        a, b = v[3][0][1], v[3][1][1]
        # a bound that is equal, comparable or incomparable (product order)
        da, db = r.choice([(0, 0), (1, 1), (-1, -1), (1, -1), (-1, 1), (1, 0), (0, -1)])
        w = ("adt", "Po", [], [("int", max(0, a + da)), ("int", max(0, b + db))], "Po", "tuple")
        e = "Po(%d, %d)" % (w[3][0][1], w[3][1][1])
        self.mval(e, w)
        return {"eq": "== ", "ne": "!= ", "lt": "< ", "le": "<= ", "gt": "> ", "ge": ">= "}[f] + e

    def atom_pat(self, v, t, by_ref, at_root=False):
        r = self.rng
        k = t[0]
        if k == "po":
            return self.po_pat(v)
        forms = ["simple", "eq", "ne", "wild"]
        if k in ("int", "f64", "char"):
            forms += ["lt", "le", "gt", "ge", "range", "range", "closure"]
        if k in ("string", "strref"):
            forms += ["string", "string", "closure", "like"]
            if self.g.allow_regex:
                forms += ["regex", "regex"]
        if k == "f64":
            forms = [f for f in forms if f != "simple"]
        if k in ("string", "strref"):
            forms = [f for f in forms if f != "simple"]
        if k == "strref":
            forms = [f for f in forms if f not in ("like", "regex")]
        if at_root and not self.root_is_ref and k in ("string",):
            # a closure at the root receives the value itself (moved); see C09/C11 findings
            forms = [f for f in forms if f != "closure"]
        if self.forms:
            forms = [f for f in forms if f in self.forms] or ["eq"]
        f = r.choice(forms)
        if self.force:
            f, self.force = self.force, None
        self.use(f)
        if f == "wild":
            return "_"
        if f in ("simple", "string"):
            txt = self.lit(v, t)
            self.mval(txt, v)
            return txt
        if f == "eq":
            e = self.eq_expr(v, t)
            self.mval(e, v)
            return "== " + e
        if f == "ne":
            w = self.other(v, t)
            e = self.eq_expr(w, t)
            self.mval(e, w)
            return "!= " + e
        if f in ("lt", "le", "gt", "ge"):
            w = self.bound(v, t, f)
            e = self.lit(w, t)
            self.mval(e, w)
            return {"lt": "< ", "le": "<= ", "gt": "> ", "ge": ">= "}[f] + e
        if f == "range":
            lo, hi, incl = self.range_around(v, t)
            txt = (self.lit(lo, t) if lo is not None else "") + ("..=" if incl else "..") + (self.lit(hi, t) if hi is not None else "")
            self.mrange(txt, lo, hi, incl)
            return txt
        if f == "closure":
            if k in ("string", "strref"):
                txt = "|s| s.len() == %d" % len(v[1].encode("utf-8"))
                self.mpred(txt, "(len eq %d)" % len(v[1].encode("utf-8")))
            else:
                w = self.bound(v, t, "ge")
                # force_shape == "typed": the parameter carries a type annotation (`|x: &i32| ..`), a bare `:` inside the pattern
                typed = self.force_shape == "typed"
                if typed:
                    self.force_shape = None
                txt = ("|x: &%s| x.clone() >= %s" % (self.g.rust_type(t), self.lit(w, t))) if typed else "|x| x.clone() >= %s" % self.lit(w, t)
                self.mpred(txt, "(cmp ge %s)" % sexp(w))
            return txt
        if f == "regex":
            s = v[1]
            safe = "".join(c for c in s if c.isalnum() or c == " ")
            if safe and safe == s:
                choice = r.choice(["exact", "prefix", "contains"])
                if choice == "exact":
                    pat, pred = "^%s$" % s, "(cmp eq %s)" % sexp(v)
                elif choice == "prefix":
                    pat, pred = "^%s" % s[: max(1, len(s) // 2)], "(prefix %s)" % hexs(s[: max(1, len(s) // 2)])
                else:
                    pat, pred = s[len(s) // 2:], "(contains %s)" % hexs(s[len(s) // 2:])
            else:
                pat, pred = ".*", "(const true)"
            self.meanings.append("(p %s %s)" % (hexs(pat), pred))
            return "=~ " + rust_str(pat)
        if f == "like":
            pre = v[1][: len(v[1]) // 2]
            txt = "=~ Prefix(%s)" % rust_str(pre)
            self.mpred("Prefix(%s)" % rust_str(pre), "(prefix %s)" % hexs(pre))
            return txt
        raise ValueError(f)

    def eq_expr(self, v, t):
        if t[0] == "string":
            return self.rng.choice([rust_str(v[1]), rust_str(v[1]) + ".to_string()"])
        if t[0] == "int" and v[1] < 0:
            return "-%d" % -v[1]
        return self.g.rust_expr(v, t)

    def other(self, v, t):
        for _ in range(20):
            w = self.g.gen_val(t)
            if w != v:
                return w
        return self.g.perturb(v, t, 1.0)

    def bound(self, v, t, f):
        r = self.rng
        k = t[0]
        step = {"int": 1, "f64": 25, "char": 1}[k]
        x = ord(v[1]) if k == "char" else v[1]
        d = r.choice([0, 0, 1, 2])  # boundary-biased
        if f == "lt":
            y = x + step * (1 + d)
        elif f == "le":
            y = x + step * d
        elif f == "gt":
            y = x - step * (1 + d)
        else:
            y = x - step * d
        if k == "char":
            y = max(33, min(126, y))
            if chr(y) in "'\\":
                y += 1
            return ("chr", chr(y))
        if k == "int" and t[1] == "u8":
            y = max(0, min(255, y))
        return ("int" if k == "int" else "dec", y)

    def range_around(self, v, t):
        r = self.rng
        k = t[0]
        step = {"int": 1, "f64": 25, "char": 1}[k]
        x = ord(v[1]) if k == "char" else v[1]
        mk = (lambda y: ("chr", chr(max(33, min(126, y))) if chr(max(33, min(126, y))) not in "'\\" else "a")) if k == "char" else (
            lambda y: ("int", max(0, min(255, y)) if t[1] == "u8" else y) if k == "int" else ("dec", y))
        shape = r.choice(["closed", "closed", "half", "from", "to", "toincl"])
        if self.force_shape:
            shape, self.force_shape = self.force_shape, None
        if k == "char" and shape in ("from", "to", "half"):
            shape = "closed"
        if k == "f64" and shape in ("toincl",):
            shape = "closed"
        lo = x - step * r.choice([0, 0, 1, 3])
        hi = x + step * r.choice([0, 0, 1, 3])
        if k == "char":
            lo, hi = max(48, min(122, lo)), max(48, min(122, hi))
            lo, hi = min(lo, hi), max(lo, hi)
            if chr(lo) in "'\\" or chr(hi) in "'\\":
                lo, hi = 97, 122
        if shape == "closed":
            return mk(lo), mk(hi), True
        if shape == "half":
            return mk(lo), mk(hi + step), False
        if shape == "from":
            return mk(lo), None, False
        if shape == "to":
            return None, mk(hi + step), False
        return None, mk(hi), True

    # -- composites
    def pat(self, v, t, depth=0, by_ref=True):
        r = self.rng
        k = t[0]
        if k in ("int", "bool", "string", "strref", "char", "f64", "po"):
            ap = self.atom_pat(v, t, by_ref, at_root=(depth == 0))
            # a single pattern in grouping parentheses `(p)` is a pattern
            if getattr(self, "spellings", True) and r.random() < 0.04 and not ap.startswith("|"):
                self.use("parenthesised")
                return "(%s)" % ap
            return ap
        if r.random() < 0.06:
            self.use("wild")
            return "_"
        if r.random() < 0.08 and k in ("option", "vec", "tuple", "struct", "enum", "result"):
            e = self.g.rust_expr(v, t)
            self.use("eq-compound")
            self.mval(e, v)
            return "== " + e
        if k == "option":
            q = "Option::" if getattr(self, "spellings", True) and r.random() < 0.08 else ""
            if v[1] == "None":
                self.use("unit-variant")
                return q + "None"
            self.use("enum-tuple")
            return q + "Some(%s)" % self.pat(v[3][0], t[1], depth + 1)
        if k == "result":
            self.use("enum-tuple")
            return "%s(%s)" % (v[1], self.pat(v[3][0], t[1] if v[1] == "Ok" else t[2], depth + 1))
        if k == "vec":
            return self.seq_pat(v, t, depth)
        if k == "set":
            return self.set_pat(v[1], t[1], depth)
        if k == "tuple":
            self.use("tuple")
            if r.random() < 0.25:
                return "(%s)" % ", ".join("%d: %s" % (i, self.pat(x, tt, depth + 1)) for i, (x, tt) in enumerate(zip(v[1], t[1])))
            return "(%s)" % ", ".join(self.pat(x, tt, depth + 1) for x, tt in zip(v[1], t[1]))
        if k == "struct":
            return self.struct_pat(t[1], t[1], self.g.structs[t[1]], v, depth)
        if k == "enum":
            vn, vk, pl = [x for x in self.g.enums[t[1]] if x[0] == v[1]][0]
            path = "%s::%s" % (t[1], vn)
            if getattr(self, "spellings", True) and r.random() < 0.08:
                path = "self::" + path
            if vk == "unit":
                self.use("unit-variant")
                return path
            if vk == "tuple":
                self.use("enum-tuple")
                return "%s(%s)" % (path, ", ".join(self.pat(x, tt, depth + 1) for x, tt in zip(v[3], pl)))
            return self.struct_pat(path, None, pl, v, depth)
        if k == "map":
            return self.map_pat(v, t, depth)
        if k == "box":
            self.use("eq-compound")
            e = self.g.rust_expr(v, t)
            self.mval(e, v)
            return "== " + e
        raise ValueError(t)

    def field_entry(self, f, x, ft, depth):
        """`field-ops: pattern` for one field, possibly through a field operation."""
        r = self.rng
        k = ft[0]
        if k == "box":
            self.use("op-deref")
            return "*%s: %s" % (f, self.pat(x[1], ft[1], depth + 1))
        if k in ("vec", "string", "set", "map") and r.random() < 0.25:
            self.use("op-method")
            n = len(x[1].encode("utf-8")) if k == "string" else len(x[1])
            return "%s.len(): %s" % (f, self.atom_pat(("int", n), ("int", "usize"), False))
        if k == "vec" and x[1] and r.random() < 0.25:
            self.use("op-index")
            i = r.randrange(len(x[1]))
            self.mval(str(i), ("int", i))
            return "%s[%d]: %s" % (f, i, self.pat(x[1][i], ft[1], depth + 1))
        if k == "tuple" and r.random() < 0.45:
            self.use("op-tuple-index")
            i = r.randrange(len(x[1]))
            if ft[1][i][0] == "tuple" and r.random() < 0.7:
                # two consecutive indices: `f.0.1` reaches the macro as ONE float literal token
                j = r.randrange(len(x[1][i][1]))
                self.use("op-tuple-index-chain")
                return "%s.%d.%d: %s" % (f, i, j, self.pat(x[1][i][1][j], ft[1][i][1][j], depth + 1))
            return "%s.%d: %s" % (f, i, self.pat(x[1][i], ft[1][i], depth + 1))
        if k == "struct" and r.random() < 0.3:
            fs = self.g.structs[ft[1]]
            j = r.randrange(len(fs))
            if fs[j][1][0] != "box":
                self.use("op-nested-field")
                return "%s.%s: %s" % (f, fs[j][0], self.pat(x[3][j], fs[j][1], depth + 1))
        return "%s: %s" % (f, self.pat(x, ft, depth + 1))

    def struct_pat(self, path, tyname, fields, v, depth):
        r = self.rng
        idx = list(range(len(fields)))
        rest = r.random() < 0.55
        wild = tyname is not None and r.random() < 0.15
        if rest or wild:
            idx = [i for i in idx if r.random() < 0.7]
        r.shuffle(idx)
        if idx and r.random() < 0.12:
            idx.append(r.choice(idx))  # a repeated field
        if not idx and not (rest or wild):
            idx = list(range(len(fields)))
        parts = [self.field_entry(fields[i][0], v[3][i], fields[i][1], depth) for i in idx]
        if wild:
            self.use("wildcard-struct")
            return "_ { %s }" % ", ".join(parts + [".."])
        self.use("struct" + ("-rest" if rest else ""))
        if not rest and parts and getattr(self, "spellings", True) and r.random() < 0.08:
            return "%s { %s, }" % (path, ", ".join(parts))
        if rest:
            if not parts:
                # `T { .. }` expands to invalid Rust on the pinned tree (known finding C14); keep one field
                i = 0
                parts = [self.field_entry(fields[i][0], v[3][i], fields[i][1], depth)]
            return "%s { %s }" % (path, ", ".join(parts + [".."]))
        return "%s { %s }" % (path, ", ".join(parts))

    def seq_pat(self, v, t, depth):
        r = self.rng
        vs = v[1]
        c = r.random()
        if c < 0.2 and t[1][0] in ("int", "string", "option", "char", "bool") and len(vs) <= 4:
            return self.set_pat(vs, t[1], depth)
        if c < 0.55 or not vs:
            self.use("slice-exact")
            tc = "," if vs and getattr(self, "spellings", True) and r.random() < 0.08 else ""
            return "[%s%s]" % (", ".join(self.pat(x, t[1], depth + 1) for x in vs), tc)
        a = r.randint(0, len(vs))
        b = r.randint(a, len(vs))
        self.use("slice-rest")
        parts = [self.pat(x, t[1], depth + 1) for x in vs[:a]] + [".."] + [self.pat(x, t[1], depth + 1) for x in vs[b:]]
        return "[%s]" % ", ".join(parts)

    def set_pat(self, vs, et, depth):
        r = self.rng
        idx = list(range(len(vs)))
        r.shuffle(idx)
        rest = r.random() < 0.4
        if rest:
            idx = [i for i in idx if r.random() < 0.7]
        self.use("set" + ("-rest" if rest else ""))
        parts = [self.pat(vs[i], et, depth + 1) for i in idx]
        return "#(%s)" % ", ".join(parts + ([".."] if rest else []))

    def map_pat(self, v, t, depth):
        r = self.rng
        idx = list(range(len(v[1])))
        rest = r.random() < 0.5
        if rest:
            idx = [i for i in idx if r.random() < 0.7]
        r.shuffle(idx)
        parts = []
        for i in idx:
            kv = v[1][i]
            if t[1][0] == "string":
                ktxt = rust_str(kv[1])
            else:
                ktxt = "%d" % kv[1] if kv[1] >= 0 else "-%d" % -kv[1]
            self.mval(ktxt, kv)
            parts.append("%s: %s" % (ktxt, self.pat(v[2][i], t[2], depth + 1)))
        if r.random() < 0.15:
            # a key that is absent
            ak = ("str", "zz-absent") if t[1][0] == "string" else ("int", 987)
            ktxt = rust_str(ak[1]) if t[1][0] == "string" else "987"
            self.mval(ktxt, ak)
            parts.append("%s: _" % ktxt)
        self.use("map" + ("-rest" if rest else ""))
        return "#{ %s }" % ", ".join(parts + ([".."] if rest else []))


def top_form(pat):
    """Form of the outermost pattern, from its text."""
    import re
    p = pat.strip()
    if p.startswith("|") or p.startswith("move"):
        return "closure"
    if re.match(r"_\s*\{", p):
        return "wildcard-struct"
    if p == "_":
        return "wild"
    for op, n in (("==", "eq"), ("!=", "ne"), ("<=", "le"), (">=", "ge"), ("<", "lt"), (">", "gt")):
        if p.startswith(op):
            return n
    if p.startswith("=~"):
        return "regex" if p[2:].strip().startswith(('"', 'r"', "r#")) else "like"
    if p.startswith("#("):
        return "set"
    if p.startswith("#{"):
        return "map"
    if p.startswith("["):
        return "slice"
    if p.startswith("("):
        return "tuple"
    if p.startswith('"'):
        return "string"
    m = re.match(r"[A-Za-z_][A-Za-z0-9_:]*", p)
    if m and not p.startswith(("true", "false")):
        rest = p[m.end():].lstrip()
        if rest.startswith("{"):
            return "struct"
        if rest.startswith("("):
            return "enum-tuple"
        if rest == "":
            return "unit-variant"
    if ".." in p and not p.startswith('"'):
        return "range"
    return "simple"
