"""T4: the rendered report for reports with several entries, entries sharing a location and entries
with equal texts.  Every entry must show up in the message with its own label (C03: nothing is
dropped; C05: the text next to a location is that entry's text)."""
import os
import shutil

import gen
from vlib import CACHE, hexs, unhexs


def value_text(rng):
    """The text of a tested value as `{:?}` gives it: mostly short, but also long (a long string, a long vector, a whole nested
    struct), with characters a renderer might treat specially, empty, or spanning several lines (a user Debug impl may)."""
    r = rng.random()
    if r < 0.55:
        return "v%02d" % rng.randint(0, 99)
    if r < 0.70:
        n = rng.choice([100, 119, 120, 121, 122, 150, 255, 256, 400, 1000, 3000])
        body = "".join(rng.choice("abcdefghij0123456789, ") for _ in range(n - 2))
        return "[" + body.strip().ljust(n - 2, "x") + "]"
    if r < 0.78:
        return '"' + "".join(rng.choice(["é", "ü", "日", "x", " "]) for _ in range(rng.choice([3, 60, 130]))) + '"'
    if r < 0.86:
        return rng.choice(['"{}"', '"{0}"', "`tick`", '"\\n"', 'S { a: 1, b: "x" }', "<none>", "...", "got got", '"a\\tb"', "%s", "\\u{1b}[31mred", "\x1b[31mred"])
    if r < 0.90:
        return ""
    if r < 0.95:
        return "S {\n    a: %d,\n}" % rng.randint(0, 9)
    return " padded%d  " % rng.randint(0, 9)


def run(ck, aspect):
    scratch = os.path.join(CACHE, "scratch", "rendered-%s-%d" % (aspect, os.getpid()))
    shutil.rmtree(scratch, ignore_errors=True)
    os.makedirs(scratch)
    rng = ck.rng
    try:
        n = 250 if ck.tier == "quick" else 2500
        reqs, mreqs, meta = [], [], []
        for k in range(n):
            nlines = rng.randint(2, 7)
            lines = ["    f%d: %s," % (i, rng.choice(["> 10", '"abc"', "Some(3)", "[1, 2, ..]", "é_ü", "x"])) for i in range(nlines)]
            src = "\n".join(lines) + "\n"
            m = rng.choice([1, 2, 3, 3, 4, 5])
            ents = []
            ments = []
            shown = []
            prev = None
            for q in range(m):
                r = rng.random()
                same_node = False
                if prev is not None and r < 0.25:
                    li, a, b, act, exp = prev            # an equal neighbour: same place, same texts
                    same_node = rng.random() < 0.6        # ... pushed against the very same node (as a map does for missing keys)
                elif prev is not None and r < 0.45:
                    li, a, b = prev[0], prev[1], prev[2]  # same place, other texts
                    act, exp = value_text(rng), "p%02d" % rng.randint(0, 99)
                elif prev is not None and r < 0.6:
                    act, exp = prev[3], prev[4]           # other place, same texts
                    li = rng.randrange(nlines)
                    a = 4
                    b = len(lines[li]) - 1
                else:
                    li = rng.randrange(nlines)
                    a = 4
                    b = len(lines[li]) - 1
                    act, exp = value_text(rng), "p%02d" % rng.randint(0, 99)
                prev = (li, a, b, act, exp)
                ments.append("%d %d %d %d simple:%s %s none" % (li + 1, a, li + 1, b, hexs(exp), hexs(act)))
                ents.append("%d %d %d %d %s %s none" % (li + 1, a, li + 1, b, "prev" if same_node else "simple:" + hexs(exp), hexs(act)))
                shown.append(prev)
            fn = "r%d.rs" % k
            open(os.path.join(scratch, fn), "wb").write(src.encode("utf-8"))
            reqs.append("display %s %s 1 %s %d %s" % (hexs(scratch), hexs(fn), hexs(src), m, " ".join(ents)))
            mreqs.append("display %s %s 1 %s %d %s" % (hexs(scratch), hexs(fn), hexs(src), m, " ".join(ments)))
            meta.append((src, shown))
        model = ck.lean_batch(mreqs)
        impl = ck.rt_batch(reqs)
        dis = 0
        dup = same_place = 0
        for ln, md, im, (src, shown) in zip(reqs, model, impl, meta):
            mf = dict(x.split("=", 1) for x in md.split(" ")[1:])
            f = im.split(" ")
            imf = dict(x.split("=", 1) for x in f[1:])
            want_labels = [unhexs(x) for x in mf["labels"].split(",")] if mf["labels"] != "-" else []
            got_labels = [unhexs(x) for x in imf["labels"].split(",")] if imf["labels"] != "-" else []
            out = unhexs(imf["out"]) if imf.get("out", "-") not in ("-", "*") else ""
            if len(set(want_labels)) < len(want_labels):
                dup += 1
            if len({(s[0], s[1], s[2]) for s in shown}) < len(shown):
                same_place += 1
            desc = dict(source=src, entries_in_push_order=[dict(line=s[0] + 1, cols=[s[1], s[2]], actual=s[3], expected=s[4]) for s in shown],
                        expected_labels=want_labels, labels_at_display=got_labels, message=out[:1500])
            if f[0] != "ok":
                continue   # C06's subject
            if got_labels != want_labels:
                dis += 1
                if aspect == "C05":
                    ck.report("entry-text-pairing", "the texts the report shows are not, entry by entry, the texts of the entries pushed", desc)
                elif aspect == "C03":
                    ck.report("entries-at-display", "the entries shown are not the entries pushed", desc)
            else:
                # which source line each label is rendered under
                import re as _re
                cur = None
                got_pairs = []
                for ln_ in out.split("\n"):
                    mm = _re.match(r"^\s*(\d+) \|", ln_)
                    if mm:
                        cur = int(mm.group(1))
                        continue
                    for L in set(want_labels):
                        got_pairs += [(cur, L)] * ln_.count(L)
                want_pairs = sorted((sh[0] + 1, L) for sh, L in zip(shown, want_labels))
                # counting labels in the message only means something when no label is part of another one and none spans lines
                ambiguous = any("\n" in L or not L.strip() for L in want_labels) or any(a != b and a in b for a in want_labels for b in want_labels)
                if ambiguous:
                    continue
                if sorted(got_pairs, key=lambda x: (x[0] or 0, x[1])) != want_pairs and all(out.count(L) >= want_labels.count(L) for L in set(want_labels)):
                    dis += 1
                    if aspect == "C05":
                        ck.report("text-under-another-entry", "an entry's text is rendered under the source line of another entry",
                                  dict(desc, label_lines_rendered=got_pairs, label_lines_expected=want_pairs))
                    elif aspect == "C03":
                        ck.report("entry-at-wrong-line", "an entry is rendered under the source line of another entry", dict(desc, label_lines_rendered=got_pairs, label_lines_expected=want_pairs))
                for L in set(want_labels):
                    if out.count(L) < want_labels.count(L):
                        dis += 1
                        if aspect == "C03":
                            ck.report("entry-missing-in-message", "an entry is missing from the rendered message (%d of %d occurrences of its label)" % (out.count(L), want_labels.count(L)), desc)
                        elif aspect == "C05":
                            ck.report("entry-text-missing", "an entry's text is missing from the rendered message", desc)
                        break
        ck.corr_record("T4 rendered message (reports with 1-5 entries, entries sharing a location, neighbours with equal texts: labels seen by Display vs the label model, and every label present in the message as often as entries carry it)",
                       len(reqs), len(set(reqs)), dis, {"reports_with_repeated_labels": dup, "reports_with_entries_at_one_place": same_place},
                       samples=[dict(source=meta[0][0], entries=meta[0][1])], rule="seeded; every request distinct")
    finally:
        shutil.rmtree(scratch, ignore_errors=True)
