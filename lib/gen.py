"""Seeded generators shared by the checks."""

ASCII = list("abcxyz019 _=>{}(),:;.\"'#/*")
WIDE2 = list("éñßΩж")
WIDE3 = list("日本語€ก")
WIDE4 = list("😀🦀𝔘")
COMB = ["é"]


def rand_text(rng, max_lines=6, max_cols=24, unicode_p=0.35, crlf_p=0.2, tabs_p=0.2):
    """Source-like text: a few lines mixing ASCII, tabs, multi-byte characters and CRLF."""
    lines = []
    crlf = rng.random() < crlf_p
    for _ in range(rng.randint(0, max_lines)):
        n = rng.randint(0, max_cols)
        cs = []
        for _ in range(n):
            r = rng.random()
            if r < unicode_p:
                cs.append(rng.choice(rng.choice([WIDE2, WIDE3, WIDE4, COMB])))
            elif r < unicode_p + (0.1 if rng.random() < tabs_p else 0):
                cs.append("\t")
            else:
                cs.append(rng.choice(ASCII))
        lines.append("".join(cs))
    sep = "\r\n" if crlf else "\n"
    s = sep.join(lines)
    if lines and rng.random() < 0.5:
        s += sep
    return s


def pos_of(s, i):
    """(line, col, byte) of character index i (Python-side twin of the Lean spec, used
    only to build requests; the Lean `posof` answer is what is compared)."""
    pre = s[:i]
    line = 1 + pre.count("\n")
    col = len(pre) - (pre.rfind("\n") + 1)
    return line, col, len(pre.encode("utf-8"))
