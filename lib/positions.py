"""Position sweep (C11, C09, C08): the same (type, value, pattern) wrapped in every position a
pattern can occupy."""
import tgen

# name -> (wrapper declarations, wrapped type text, wrapped value text, wrapped pattern text,
#          wrapped value as a generator value given the inner value's s-expression)
POSITIONS = ["field", "root", "tuple-elem", "enum-elem", "slice-elem", "set-elem", "map-value", "ok", "err",
             "nested-field", "tuple-index", "index", "deref", "method", "wildcard-field", "struct-variant-field", "method-value",
             "method-then-field", "method-then-index", "tuple-index-chain", "method-value-then-borrow"]

# meanings of the wrapper methods the positions use (appended to every case's meaning table)
METHOD_MEANINGS = "(m %s %s) (m %s %s) (m %s %s)" % (tgen.hexs("get"), tgen.hexs("field:f"), tgen.hexs("own"), tgen.hexs("field:h"), tgen.hexs("r"), tgen.hexs("field:f"))


# The same sweep one reference level up: the value handed to the pattern is a `&T`.  The comparator is a struct field of type
# `&T`; the root positions differ only in how the asserted expression is WRITTEN (a borrow, a parenthesised borrow, a variable
# holding the reference) - the form of that expression must not change what the root pattern is applied to.
REF_POSITIONS = ["ref-field", "root-borrow", "root-borrow-paren", "root-ref-var", "tuple-elem-ref"]


def wrap_ref(pos, g, t, v, pat):
    """Returns (decls, type text, value expr, pattern text, value s-expression, asserted expression, setup)."""
    T = g.rust_type(t)
    E = g.rust_expr(v, t)
    S = tgen.sexp(v)
    adt = lambda ctor, names, vals: "(adt %s (names %s) (vals %s))" % (tgen.hexs(ctor), " ".join(tgen.hexs(n) for n in names), " ".join(vals))
    if pos == "ref-field":
        return "#[derive(Debug)] struct WR<'a> { f: &'a %s }" % T, "WR<'_>", "WR { f: &(%s) }" % E, "WR { f: %s }" % pat, adt("WR", ["f"], [S]), "v", ""
    if pos == "root-borrow":
        return "", T, E, pat, S, "&v", ""
    if pos == "root-borrow-paren":
        return "", T, E, pat, S, "(&v)", ""
    if pos == "root-ref-var":
        return "", T, E, pat, S, "r", "let r = &v;"
    if pos == "tuple-elem-ref":
        return "", "(&%s, u8)" % T, "(&(%s), 1u8)" % E, "(%s, _)" % pat, "(tuple %s (int 1))" % S, "v", ""
    raise ValueError(pos)


def wrap(pos, g, t, v, pat):
    """Returns (decls, type text, value expr, pattern text, value s-expression, value-for-meanings)."""
    T = g.rust_type(t)
    E = g.rust_expr(v, t)
    S = tgen.sexp(v)

    def adt(ctor, names, vals):
        return "(adt %s (names %s) (vals %s))" % (tgen.hexs(ctor), " ".join(tgen.hexs(n) for n in names), " ".join(vals))

    if pos == "root":
        return "", T, E, pat, S
    if pos == "field":
        return "#[derive(Debug)] struct W { f: %s }" % T, "W", "W { f: %s }" % E, "W { f: %s }" % pat, adt("W", ["f"], [S])
    if pos == "wildcard-field":
        return "#[derive(Debug)] struct W { f: %s }" % T, "W", "W { f: %s }" % E, "_ { f: %s, .. }" % pat, adt("W", ["f"], [S])
    if pos == "struct-variant-field":
        return "#[derive(Debug)] enum W { A { f: %s }, B }" % T, "W", "W::A { f: %s }" % E, "W::A { f: %s }" % pat, adt("A", ["f"], [S])
    if pos == "tuple-elem":
        return "", "(%s, u8)" % T, "(%s, 1u8)" % E, "(%s, _)" % pat, "(tuple %s (int 1))" % S
    if pos == "enum-elem":
        return "", "Option<%s>" % T, "Some(%s)" % E, "Some(%s)" % pat, adt("Some", [], [S])
    if pos == "ok":
        return "", "Result<%s, ()>" % T, "Ok(%s)" % E, "Ok(%s)" % pat, adt("Ok", [], [S])
    if pos == "err":
        return "", "Result<(), %s>" % T, "Err(%s)" % E, "Err(%s)" % pat, adt("Err", [], [S])
    if pos == "slice-elem":
        return "", "Vec<%s>" % T, "vec![%s]" % E, "[%s]" % pat, "(seq %s)" % S
    if pos == "set-elem":
        return "", "Vec<%s>" % T, "vec![%s]" % E, "#(%s)" % pat, "(seq %s)" % S
    if pos == "map-value":
        return "", "BTreeMap<String, %s>" % T, 'BTreeMap::from([("k".to_string(), %s)])' % E, '#{ "k": %s }' % pat, "(map (keys (str %s)) (vals %s))" % (tgen.hexs("k"), S)
    if pos == "nested-field":
        return ("#[derive(Debug)] struct W { f: %s }\n#[derive(Debug)] struct W2 { w: W }" % T, "W2", "W2 { w: W { f: %s } }" % E,
                "W2 { w.f: %s }" % pat, adt("W2", ["w"], [adt("W", ["f"], [S])]))
    if pos == "tuple-index":
        return ("#[derive(Debug)] struct W { t: (%s, u8) }" % T, "W", "W { t: (%s, 1u8) }" % E, "W { t.0: %s }" % pat,
                adt("W", ["t"], ["(tuple %s (int 1))" % S]))
    if pos == "index":
        return ("#[derive(Debug)] struct W { xs: Vec<%s> }" % T, "W", "W { xs: vec![%s] }" % E, "W { xs[0]: %s }" % pat,
                adt("W", ["xs"], ["(seq %s)" % S]))
    if pos == "deref":
        return ("#[derive(Debug)] struct W { b: Box<%s> }" % T, "W", "W { b: Box::new(%s) }" % E, "W { *b: %s }" % pat,
                adt("W", ["b"], ["(box %s)" % S]))
    if pos == "method":
        return ("#[derive(Debug)] struct W { f: %s }\nimpl W { fn get(&self) -> &%s { &self.f } }\n#[derive(Debug)] struct W2 { w: W }" % (T, T),
                "W2", "W2 { w: W { f: %s } }" % E, "W2 { w.get(): %s }" % pat, adt("W2", ["w"], [adt("W", ["f"], [S])]))
    if pos == "method-value":
        # the method returns the value itself (a temporary), not a reference into the struct
        return ("#[derive(Debug)] struct W { f: %s }\nimpl W { fn get(&self) -> %s { self.f.clone() } }\n#[derive(Debug)] struct W2 { w: W }" % (T, T),
                "W2", "W2 { w: W { f: %s } }" % E, "W2 { w.get(): %s }" % pat, adt("W2", ["w"], [adt("W", ["f"], [S])]))
    if pos == "tuple-index-chain":
        # two consecutive tuple indices reach the macro as ONE float literal token (`0.1`); the mirrored path `t.1.0` does not exist
        return ("#[derive(Debug)] struct W { t: ((u8, %s), u8) }" % T, "W", "W { t: ((1u8, %s), 1u8) }" % E, "W { t.0.1: %s }" % pat,
                adt("W", ["t"], ["(tuple (tuple (int 1) %s) (int 1))" % S]))
    if pos == "method-then-field":
        # a projection AFTER a call: `h.id().f` is a place inside the value the call returned a reference to
        return ("#[derive(Debug)] struct H { f: %s }\nimpl H { fn id(&self) -> &H { self } }\n#[derive(Debug)] struct W2 { h: H }" % T,
                "W2", "W2 { h: H { f: %s } }" % E, "W2 { h.id().f: %s }" % pat, adt("W2", ["h"], [adt("H", ["f"], [S])]))
    if pos == "method-value-then-borrow":
        # a chain whose LAST call borrows from a temporary an EARLIER call returned by value (`name.to_lowercase().as_str()`): the
        # temporary has to live as long as the generated assertion uses the borrow
        return ("#[derive(Debug, Clone)] struct H { f: %s }\nimpl H { fn r(&self) -> &%s { &self.f } }\n#[derive(Debug)] struct W { h: H }\nimpl W { fn own(&self) -> H { self.h.clone() } }\n"
                "#[derive(Debug)] struct W2 { w: W }" % (T, T),
                "W2", "W2 { w: W { h: H { f: %s } } }" % E, "W2 { w.own().r(): %s }" % pat, adt("W2", ["w"], [adt("W", ["h"], [adt("H", ["f"], [S])])]))
    if pos == "method-then-index":
        return ("#[derive(Debug)] struct H { xs: Vec<%s> }\nimpl H { fn id(&self) -> &H { self } }\n#[derive(Debug)] struct W2 { h: H }" % T,
                "W2", "W2 { h: H { xs: vec![%s] } }" % E, "W2 { h.id().xs[0]: %s }" % pat, adt("W2", ["h"], [adt("H", ["xs"], ["(seq %s)" % S])]))
    raise ValueError(pos)


# What kind of expression each position hands to the inner pattern.
POSITION_CLASS = {
    "field": "reference-binding", "root": "reference-binding", "tuple-elem": "reference-binding",
    "enum-elem": "reference-binding", "slice-elem": "reference-binding", "set-elem": "reference-binding",
    "map-value": "reference-binding", "ok": "reference-binding", "err": "reference-binding",
    "struct-variant-field": "reference-binding", "wildcard-field": "reference-to-place",
    "ref-field": "reference-binding", "root-borrow": "root-written-as-borrow", "root-borrow-paren": "root-written-as-borrow",
    "root-ref-var": "reference-binding", "tuple-elem-ref": "reference-binding",
    "nested-field": "place", "tuple-index": "place", "index": "place", "deref": "place", "method": "method-result", "method-value": "temporary", "method-then-field": "place", "method-then-index": "place", "tuple-index-chain": "place", "method-value-then-borrow": "method-result",
}
