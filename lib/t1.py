"""T1: the real parser in process on valid inputs, every truncation and single-token mutation
of them, and grammar-random token sequences."""
import random
import re

import corpus
import t2
from vlib import hexs, unhexs

FOREIGN = ["..", ",", ":", "=", "==", "=~", "#", "_", "*", ".", "|", "x", "5", '"s"', "(", ")", "[", "]", "{", "}", "..=", "<", ">=", "!", "move", "await", "0.1", "::", "~"]


def tokenize(ck, texts):
    outs = ck.rt_batch(["toks " + hexs(t) for t in texts], binary="inproc", harness="inproc")
    res = []
    for o in outs:
        if o == "lexerr" or not o:
            res.append(None)
            continue
        toks = []
        for t in o.split(" "):
            h, j = t.split(":")
            toks.append((unhexs(h), j == "1"))
        res.append(toks)
    return res


def join(toks):
    out = []
    for (t, j) in toks:
        out.append(t)
        if not j:
            out.append(" ")
    return "".join(out).strip()


def mutations(rng, toks, max_per_kind):
    """Truncations and single-token edits of a token list."""
    n = len(toks)
    res = []
    idx = list(range(n))
    for i in (idx if n <= max_per_kind else rng.sample(idx, max_per_kind)):
        res.append(("truncate", toks[:i]))
    for i in (idx if n <= max_per_kind else rng.sample(idx, max_per_kind)):
        res.append(("delete", toks[:i] + toks[i + 1:]))
        res.append(("duplicate", toks[:i + 1] + [toks[i]] + toks[i + 1:]))
        if i + 1 < n:
            res.append(("swap", toks[:i] + [toks[i + 1], toks[i]] + toks[i + 2:]))
        f = rng.choice(FOREIGN)
        res.append(("insert", toks[:i] + [(f, False)] + toks[i:]))
    return res


def balanced(toks):
    st = []
    pairs = {")": "(", "]": "[", "}": "{"}
    for (t, _) in toks:
        if t in "([{":
            st.append(t)
        elif t in pairs:
            if not st or st.pop() != pairs[t]:
                return False
    return not st


def build_inputs(ck, n_valid, max_per_kind):
    rng = random.Random("t1/%d" % ck.seed)
    valid = [t for _, t in corpus.repo_invocations()] + t2.EDGE + t2.gen_texts(rng, n_valid)
    toks = tokenize(ck, valid)
    inputs = [("valid", t) for t in valid]
    for t, tk in zip(valid, toks):
        if tk is None:
            continue
        sample = mutations(rng, tk, max_per_kind)
        for kind, m in sample:
            if balanced(m):
                inputs.append((kind, join(m)))
    # grammar-random token soup
    for _ in range(n_valid):
        k = rng.randint(1, 14)
        seq = [(rng.choice(FOREIGN + ["S", "a", "Some", "1", "x"]), False) for _ in range(k)]
        if balanced(seq):
            inputs.append(("random", "x, " + join(seq)))
    seen = set()
    uniq = []
    for kind, t in inputs:
        if t not in seen:
            seen.add(t)
            uniq.append((kind, t))
    return uniq


def run(ck, n_valid=None, max_per_kind=None):
    n_valid = n_valid if n_valid is not None else (120 if ck.tier == "quick" else 1500)
    max_per_kind = max_per_kind if max_per_kind is not None else (6 if ck.tier == "quick" else 40)
    inputs = build_inputs(ck, n_valid, max_per_kind)
    outs = ck.rt_batch(["run " + hexs(t) for _, t in inputs], binary="inproc", harness="inproc")
    return inputs, outs
