"""T1: the real parser in process on valid inputs, every truncation and single-token mutation
of them, and grammar-random token sequences."""
import random
import re

import corpus
import t2
from vlib import hexs, unhexs

FOREIGN = ["..", ",", ":", "=", "==", "=~", "#", "_", "*", ".", "|", "x", "5", '"s"', "(", ")", "[", "]", "{", "}", "..=", "<", ">=", "!", "move", "await", "0.1", "::", "~"]


# literal tokens of every lexical class rustc has (the parser takes several of them apart: `.0.1` after a dot is ONE float
# literal; suffixes, exponents, empty fractions, radix prefixes and the non-numeric literal kinds all reach the same code)
LITERALS = ["0.", "1.", "0.1", "1.0", "0.1e3", "1e3", "1E-2", "0.0", "1.5f32", "2f64", "7u8", "0usize", "1_0", "0x1F", "0b1", "0o7",
            "00", "01.10", "4294967296", "18446744073709551616", "340282366920938463463374607431768211456", "'c'", "b'a'", 'b"s"',
            'r"s"', 'r#"s"#', 'c"s"', '"s"', '""', "true"]


def tokenize(ck, texts):
    outs = ck.rt_batch(["toks " + hexs(t) for t in texts], binary="inproc", harness="inproc")
    res = []
    for o in outs:
        if o == "lexerr" or not o:
            res.append(None)
            continue
        toks = []
        for t in o.split(" "):
            h, j = t.split(":")
            toks.append((unhexs(h), j == "1"))
        res.append(toks)
    return res


def join(toks):
    out = []
    for (t, j) in toks:
        out.append(t)
        if not j:
            out.append(" ")
    return "".join(out).strip()


def mutations(rng, toks, max_per_kind):
    """Truncations and single-token edits of a token list."""
    n = len(toks)
    res = []
    idx = list(range(n))
    for i in (idx if n <= max_per_kind else rng.sample(idx, max_per_kind)):
        res.append(("truncate", toks[:i]))
    for i in (idx if n <= max_per_kind else rng.sample(idx, max_per_kind)):
        res.append(("delete", toks[:i] + toks[i + 1:]))
        res.append(("duplicate", toks[:i + 1] + [toks[i]] + toks[i + 1:]))
        if i + 1 < n:
            res.append(("swap", toks[:i] + [toks[i + 1], toks[i]] + toks[i + 2:]))
        f = rng.choice(FOREIGN)
        res.append(("insert", toks[:i] + [(f, False)] + toks[i:]))
    # literal-class substitution: every literal token, and every token after a `.`, replaced by literals of other lexical classes
    spots = [i for i in idx if re.match(r"[0-9\"']|b['\"]|r[#\"]", toks[i][0]) or (i > 0 and toks[i - 1][0] == ".")]
    for i in (spots if len(spots) <= max_per_kind else rng.sample(spots, max_per_kind)):
        for lit in rng.sample(LITERALS, 4):
            res.append(("literal", toks[:i] + [(lit, toks[i][1])] + toks[i + 1:]))
    return res


def balanced(toks):
    st = []
    pairs = {")": "(", "]": "[", "}": "{"}
    for (t, _) in toks:
        if t in "([{":
            st.append(t)
        elif t in pairs:
            if not st or st.pop() != pairs[t]:
                return False
    return not st


def build_inputs(ck, n_valid, max_per_kind):
    rng = random.Random("t1/%d" % ck.seed)
    valid = [t for _, t in corpus.repo_invocations()] + t2.EDGE + t2.gen_texts(rng, n_valid)
    toks = tokenize(ck, valid)
    inputs = [("valid", t) for t in valid] + [("zoo", t) for t in t2.ZOO]
    for t, tk in zip(valid, toks):
        if tk is None:
            continue
        sample = mutations(rng, tk, max_per_kind)
        for kind, m in sample:
            if balanced(m):
                inputs.append((kind, join(m)))
    # grammar-random token soup
    for _ in range(n_valid):
        k = rng.randint(1, 14)
        seq = [(rng.choice(FOREIGN + ["S", "a", "Some", "1", "x"]), False) for _ in range(k)]
        if balanced(seq):
            inputs.append(("random", "x, " + join(seq)))
    seen = set()
    uniq = []
    for kind, t in inputs:
        if t not in seen:
            seen.add(t)
            uniq.append((kind, t))
    return uniq


def run(ck, n_valid=None, max_per_kind=None):
    n_valid = n_valid if n_valid is not None else (120 if ck.tier == "quick" else 1500)
    max_per_kind = max_per_kind if max_per_kind is not None else (6 if ck.tier == "quick" else 40)
    inputs = build_inputs(ck, n_valid, max_per_kind)
    outs = ck.rt_batch(["run " + hexs(t) for _, t in inputs], binary="inproc", harness="inproc")
    # the same inputs in the regime of a stable compiler (Span::join fails): the front end must answer with the same status - in
    # particular it must not panic there (`a.join(b).unwrap()` is fine in process and a "proc macro panicked" under rustc)
    import os
    envnj = dict(os.environ)
    envnj["VERIF_NOJOIN"] = "1"
    outs_nj = ck.rt_batch(["run " + hexs(t) for _, t in inputs], binary="inproc", harness="inproc", env=envnj)
    differ = 0
    for (kind, text), a, b in zip(inputs, outs, outs_nj):
        sa, sb = a.split("\t")[0], b.split("\t")[0]
        if sb == "panic":
            f = b.split("\t")
            differ += 1
            ck.report("panic-when-join-fails:%s" % (f[1] if len(f) > 1 else "?"), "the macro panics ('proc macro panicked') when Span::join fails, as it does inside a stable compiler",
                      dict(invocation="assert_struct!(%s)" % text, stage=f[1] if len(f) > 1 else "?", panic_message=unhexs(f[2]) if len(f) > 2 else "", with_join=sa, input_kind=kind))
        elif sa != sb:
            differ += 1
            ck.report("status-depends-on-join:" + hexs(text)[:30], "whether the front end accepts an input depends on whether Span::join succeeds",
                      dict(invocation="assert_struct!(%s)" % text, with_join=a[:200], join_failing=b[:200]), no_input=True)
    ck.corr_record("T1 with Span::join failing (the same inputs through the real front end in the regime of a stable compiler: same status, no panic)",
                   len(inputs), len(inputs), differ, {}, samples=[dict(invocation=inputs[0][1][:120])], rule="the T1 inputs again; vendored proc-macro2 with VERIF_NOJOIN")
    return inputs, outs
