"""T3 verdict/report corpora: generated (type, value, pattern) triples compiled against the
real macro, their verdicts and recorded report entries compared with the Lean
specification (`frontier`) evaluated on the same AST and value.

Results are cached per (repo working tree, seed, tier, stream) so that the properties that
share a corpus (C01, C02, C03, C05) compile it once.
"""
import json
import os
import random
import time

import e2e
import tgen
from vlib import CACHE, hexs, unhexs, repo_hash

HEADER = """#![allow(warnings)]
use assert_struct::{assert_struct, Like};
use std::collections::{BTreeMap, BTreeSet};
use e2e::vprelude::run_case;

pub struct Prefix(pub &'static str);
impl Like<Prefix> for String { fn like(&self, p: &Prefix) -> bool { self.starts_with(p.0) } }
"""


# Before the root-binding repair the root pattern receives the asserted expression itself
# (an owned place), not a reference to it; the generator avoids the cells this breaks.
ROOT_IS_REF = False


class Case:
    pass


def gen_cases(rng, n, stream, allow_regex=True, forms=None, depth=2):
    cases = []
    for k in range(n):
        g = tgen.Gen(rng, allow_regex=allow_regex)
        t = g.gen_type(rng.choice([1, 2, 2, depth, depth]))
        v = g.gen_val(t)
        pg = tgen.PatGen(g, rng, forms=forms, root_is_ref=ROOT_IS_REF)
        pat = pg.pat(v, t)
        c = Case()
        c.id = k
        c.gen = g
        c.ty = t
        c.pattern = pat
        c.meanings = pg.meanings_sexp()
        c.forms = pg.forms_used
        if stream == "matching":
            c.value = v
        elif stream == "nearmiss":
            c.value = g.perturb(v, t, rng.choice([0.15, 0.35, 0.6]))
        else:
            c.value = v if rng.random() < 0.4 else g.perturb(v, t, rng.choice([0.15, 0.35, 0.6]))
        c.perturbed = c.value != v
        c.text = "v, " + pat
        cases.append(c)
    return cases


def program(cases):
    """One binary: each case in a module of its own; the invocation text starts at column 1 of
    its own line (mirroring the in-process harness, which prepends one blank)."""
    out = [HEADER]
    lines = HEADER.count("\n")
    mains = []
    for c in cases:
        pre = "mod case_%d {\nuse super::*;\n%s\npub fn run() {\nlet v: %s = %s;\nassert_struct!(\n" % (
            c.id, c.gen.decls(), c.gen.rust_type(c.ty), c.gen.rust_expr(c.value, c.ty))
        c.first_line = lines + pre.count("\n") + 1
        body = " " + c.text + "\n);\n}\n}\n"
        out.append(pre + body)
        lines += pre.count("\n") + body.count("\n")
        c.last_line = lines
        mains.append("    run_case(%d, case_%d::run);" % (c.id, c.id))
    out.append("fn main() {\n%s\n}\n" % "\n".join(mains))
    return "".join(out)


def expected_from_lean(ck, cases):
    """AST from the real parser (in process), then the specification's frontier."""
    outs = ck.rt_batch(["run " + hexs(c.text) for c in cases], binary="inproc", harness="inproc")
    reqs, idx = [], []
    for c, o in zip(cases, outs):
        f = o.split("\t")
        c.parse = f[0]
        if f[0] != "ok":
            c.expect = ("parse-" + f[0], [])
            continue
        c.ast = f[1]
        reqs.append("frontier\t%s\t%s\t%s\tnojoin" % (f[1], tgen.sexp(c.value), c.meanings))
        idx.append(c)
    res = ck.lean_batch(reqs) if reqs else []
    for c, r in zip(idx, res):
        f = r.split("\t")
        if f[0] == "illtyped":
            c.expect = ("illtyped", [])
        elif f[0] == "ok":
            ents = []
            for e in (f[1].split(" ") if len(f) > 1 and f[1] else []):
                node, loc, label, actual, exp = e.split("|")
                ents.append((loc, unhexs(label), unhexs(actual), None if exp == "none" else unhexs(exp)))
            c.expect = ("ok", sorted(ents, key=lambda x: (x[0], x[1])))
        else:
            c.expect = ("lean-" + f[0], [])


def run_corpus(ck, stream, n, per_bin=20, allow_regex=True, forms=None, default_features=True, seed_salt=0, use_cache=True):
    """Returns the list of cases with .expect (spec) and .got (implementation)."""
    key = "%s-%s-%d-%s-%d-%d-%s-%s" % (repo_hash(), stream, ck.seed, ck.tier, n, seed_salt, allow_regex, default_features)
    cdir = os.path.join(CACHE, "t3")
    os.makedirs(cdir, exist_ok=True)
    cpath = os.path.join(cdir, key + ".json")
    rng = random.Random("%d/%s/%d" % (ck.seed, stream, seed_salt))
    cases = gen_cases(rng, n, stream, allow_regex=allow_regex, forms=forms)
    expected_from_lean(ck, cases)
    if use_cache and os.path.exists(cpath):
        got = json.load(open(cpath))
        for c in cases:
            c.got = tuple(got[str(c.id)]) if str(c.id) in got else ("missing", [], "")
            c.got = (c.got[0], [tuple(x) for x in c.got[1]], c.got[2])
        ck.notes.append("T3 corpus %s: results reused from this run's cache (same /repo tree, seed, tier)" % stream)
        return cases
    live = [c for c in cases if c.parse == "ok"]
    for c in cases:
        c.got = ("not-run", [], "")
    t0 = time.time()
    for attempt in range(3):
        proj = e2e.Project("t3-%s" % stream, default_features=default_features)
        try:
            bins = {}
            for i in range(0, len(live), per_bin):
                name = "c%03d" % (i // per_bin)
                chunk = live[i:i + per_bin]
                proj.add_bin(name, program(chunk))
                bins[name] = chunk
            res = proj.build()
            rejected = []
            for name, chunk in bins.items():
                if res[name]["ok"]:
                    rc, out, err = proj.run(name, default_features=default_features)
                    seen = set()
                    for line in out.split("\n"):
                        if not line.startswith("CASE "):
                            continue
                        p = line.split(" ")
                        cid = int(p[1])
                        c = [x for x in chunk if x.id == cid][0]
                        seen.add(cid)
                        if p[2] == "PASS":
                            c.got = ("pass", [], "")
                        else:
                            mi = p.index("MSG")
                            ents = []
                            for e in p[3:mi]:
                                if e == "-":
                                    continue
                                loc, label, actual, exp, span = e.split("|")
                                a = [int(x) for x in loc.split(".")]
                                if a != [0, 0, 0, 0]:
                                    a[0] -= c.first_line - 1
                                    a[2] -= c.first_line - 1
                                ents.append((".".join(map(str, a)), unhexs(label), unhexs(actual), None if exp == "none" else unhexs(exp)))
                            c.got = ("fail", sorted(ents, key=lambda x: (x[0], x[1])), unhexs(p[mi + 1]))
                    for c in chunk:
                        if c.id not in seen:
                            c.got = ("crashed", [], "rc=%s stderr=%s" % (rc, err[-500:]))
                else:
                    for d in res[name]["diags"]:
                        for s in d["spans"]:
                            if s["primary"]:
                                for c in chunk:
                                    if c.first_line - 8 <= s["ls"] <= c.last_line and c not in rejected:
                                        c.got = ("rejected", [], "%s %s" % (d["code"], d["message"]))
                                        rejected.append(c)
                    if not any(c in rejected for c in chunk):
                        for c in chunk:
                            c.got = ("rejected", [], "unattributed: " + (res[name]["diags"][0]["message"] if res[name]["diags"] else "?"))
                            rejected.append(c)
            live = [c for name, chunk in bins.items() if not res[name]["ok"] for c in chunk if c not in rejected]
        finally:
            proj.cleanup()
        if not live:
            break
    ck.notes.append("T3 corpus %s: %d cases compiled and run in %.0fs" % (stream, n, time.time() - t0))
    json.dump({str(c.id): [c.got[0], c.got[1], c.got[2]] for c in cases}, open(cpath, "w"))
    # keep the cache small
    files = sorted((os.path.getmtime(os.path.join(cdir, f)), f) for f in os.listdir(cdir))
    for _, f in files[:-40]:
        os.remove(os.path.join(cdir, f))
    return cases


def _sq(x):
    return None if x is None else x.replace(" ", "")


def compare(ck, cases, stream):
    """impl vs spec on every case; returns (stats, mismatches) where a mismatch is a dict."""
    stats = {"pass": 0, "fail": 0, "rejected": 0, "illtyped-expected": 0, "multi-failure": 0}
    mism = []
    for c in cases:
        ek, ee = c.expect
        gk, ge, gmsg = c.got
        if ek != "ok":
            stats["illtyped-expected"] += 1
            if gk in ("pass", "fail") and ek == "illtyped":
                mism.append(dict(kind="spec-illtyped-but-compiles", case=c))
            continue
        if gk == "rejected":
            stats["rejected"] += 1
            mism.append(dict(kind="rejected", case=c))
            continue
        if gk not in ("pass", "fail"):
            mism.append(dict(kind=gk, case=c))
            continue
        stats[gk] += 1
        if len(ee) >= 2:
            stats["multi-failure"] += 1
        want_pass = (ee == [])
        if want_pass != (gk == "pass"):
            mism.append(dict(kind="verdict", case=c))
        elif gk == "fail":
            # token streams print with different spacing under rustc and in process: compare blank-free
            if [(x[0], _sq(x[1])) for x in ge] != [(x[0], _sq(x[1])) for x in ee]:
                mism.append(dict(kind="entries", case=c))
            elif [x[2] for x in ge] != [x[2] for x in ee] or [_sq(x[3]) for x in ge] != [_sq(x[3]) for x in ee]:
                mism.append(dict(kind="actual-text", case=c))
            elif "assert_struct! failed" not in gmsg:
                mism.append(dict(kind="header", case=c))
    return stats, mism


def describe(c):
    return dict(type=c.gen.rust_type(c.ty), decls=c.gen.decls(), value=c.gen.rust_expr(c.value, c.ty),
                invocation="assert_struct!(%s)" % c.text, spec=c.expect, impl=[c.got[0], c.got[1]], message=c.got[2][:1500])
