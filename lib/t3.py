"""T3 verdict/report corpora: generated (type, value, pattern) triples compiled against the
real macro, their verdicts and recorded report entries compared with the Lean
specification (`frontier`) evaluated on the same AST and value.

Results are cached per (repo working tree, seed, tier, stream) so that the properties that
share a corpus (C01, C02, C03, C05) compile it once.
"""
import json
import os
import random
import time

import e2e
import tgen
import positions as _positions
from vlib import CACHE, hexs, unhexs, repo_hash

HEADER = """#![allow(warnings)]
use assert_struct::{assert_struct, Like};
use std::collections::{BTreeMap, BTreeSet};
use e2e::vprelude::run_case;

/// A partially ordered type (product order): some pairs are incomparable.
#[derive(Debug, Clone, PartialEq)]
pub struct Po(pub i32, pub i32);
impl PartialOrd for Po {
    fn partial_cmp(&self, o: &Po) -> Option<std::cmp::Ordering> {
        use std::cmp::Ordering::*;
        match (self.0.cmp(&o.0), self.1.cmp(&o.1)) {
            (a, b) if a == b => Some(a),
            (Equal, b) => Some(b),
            (a, Equal) => Some(a),
            _ => None,
        }
    }
}

// the user's own pattern type implements the std traits a generic impl inside the crate could key on (seed C16-12: Display)
#[derive(Debug, Clone, Copy, PartialEq, Eq, PartialOrd, Ord, Hash, Default)]
pub struct Prefix(pub &'static str);
impl std::fmt::Display for Prefix { fn fmt(&self, f: &mut std::fmt::Formatter<'_>) -> std::fmt::Result { write!(f, "{}*", self.0) } }
impl Like<Prefix> for String { fn like(&self, p: &Prefix) -> bool { self.starts_with(p.0) } }
"""


# Before the root-binding repair the root pattern receives the asserted expression itself
# (an owned place), not a reference to it; the generator avoids the cells this breaks.
ROOT_IS_REF = True


class Case:
    pass


def gen_cases(rng, n, stream, allow_regex=True, forms=None, depth=2):
    cases = []
    for k in range(n):
        g = tgen.Gen(rng, allow_regex=allow_regex)
        t = g.gen_type(rng.choice([1, 2, 2, depth, depth]))
        v = g.gen_val(t)
        pg = tgen.PatGen(g, rng, forms=forms, root_is_ref=ROOT_IS_REF)
        pat = pg.pat(v, t)
        c = Case()
        c.id = k
        c.gen = g
        c.ty = t
        c.pattern = pat
        c.meanings = pg.meanings_sexp()
        c.forms = pg.forms_used
        if stream == "matching":
            c.value = v
        elif stream == "nearmiss":
            c.value = g.perturb(v, t, rng.choice([0.15, 0.35, 0.6]))
        else:
            c.value = v if rng.random() < 0.4 else g.perturb(v, t, rng.choice([0.15, 0.35, 0.6]))
        c.perturbed = c.value != v
        finish_case(c, g.decls(), g.rust_type(t), g.rust_expr(c.value, t), tgen.sexp(c.value), pat)
        cases.append(c)
    return cases


def finish_case(c, decls, type_text, value_text, value_sexp, pattern):
    c.decls_text = decls
    c.type_text = type_text
    c.value_text = value_text
    c.value_sexp = value_sexp
    c.pattern = pattern
    c.text = "v, " + pattern


def gen_position_cases(rng, nbase, positions, allow_regex=True, forms=None):
    """The same (value, pattern) in every position; c.base identifies the group."""
    import positions as P
    cases = []
    k = 0
    for b in range(nbase):
        g = tgen.Gen(rng, allow_regex=allow_regex)
        t = g.gen_type(rng.choice([0, 0, 1, 1, 2]), allow=("atom", "option", "vec", "tuple", "struct", "enum"))
        v0 = g.gen_val(t)
        pg = tgen.PatGen(g, rng, forms=forms, root_is_ref=True)
        pat = pg.pat(v0, t, depth=1)
        v = v0 if rng.random() < 0.5 else g.perturb(v0, t, 0.5)
        extra = "(v %s (int 0)) (v %s (str %s)) %s" % (hexs("0"), hexs('"k"'), hexs("k"), _positions.METHOD_MEANINGS)
        for pos in positions:
            c = Case()
            c.id = k
            k += 1
            c.base = b
            c.position = pos
            c.gen = g
            c.ty = t
            c.value = v
            c.inner_pattern = pat
            c.forms = dict(pg.forms_used)
            c.meanings = pg.meanings_sexp()[:-1] + " " + extra + ")"
            wd, wt, wv, wp, ws = P.wrap(pos, g, t, v, pat)
            finish_case(c, g.decls() + "\n" + wd, wt, wv, ws, wp)
            cases.append(c)
    return cases


def program(cases):
    """One binary: each case in a module of its own; the invocation text starts at column 1 of
    its own line (mirroring the in-process harness, which prepends one blank).
    Optional per-case attributes: setup (statements before), post (statements after the caught
    assertion; may print `X <id> key=value` lines), asserted (the asserted expression, default `v`)."""
    out = [HEADER]
    lines = HEADER.count("\n")
    mains = []
    for c in cases:
        setup = getattr(c, "setup", "")
        post = getattr(c, "post", "")
        # wrap_open / wrap_close: code around the invocation inside the closure (e.g. `block_on(async {` .. `})` for `.await`); no newlines
        # custom_invocation: the statement that runs the assertion when it is not written as `assert_struct!(<text>)` in place - e.g. a
        # caller's own `macro_rules!` helper (defined in decls) that forwards to the macro; c.text stays what the macro receives
        custom = getattr(c, "custom_invocation", None)
        pre = "mod case_%d {\nuse super::*;\n%s\npub fn run() {\nlet v: %s = %s;\n%s\nrun_case(%d, || {\n%s%s\n" % (
            c.id, c.decls_text, c.type_text, c.value_text, setup, c.id, getattr(c, "wrap_open", ""), "/* forwarded */ " + custom + " /*" if custom else "assert_struct!(")
        c.mod_line = lines + 1
        c.first_line = lines + pre.count("\n") + 1
        body = " " + c.text + "\n%s%s;\n});\n%s\n}\n}\n" % ("*/" if custom else ")", getattr(c, "wrap_close", ""), post)
        out.append(pre + body)
        lines += pre.count("\n") + body.count("\n")
        c.last_line = lines
        mains.append("    case_%d::run();" % c.id)
    out.append("fn main() {\n%s\n}\n" % "\n".join(mains))
    return "".join(out)


def expected_from_lean(ck, cases):
    """AST from the real parser (in process), then the specification's frontier."""
    outs = ck.rt_batch(["run " + hexs(c.text) for c in cases], binary="inproc", harness="inproc")
    # The specification reads the pattern with the MODEL parser (Parse.lean over the token tree, syn's answers as
    # oracle), not with the implementation's: a change to the real parser must not move the specification with it.
    dumps = ck.rt_batch(["ptoks " + hexs(c.text) for c in cases], binary="inproc", harness="inproc")
    mparse = ck.lean_batch(["parse\t" + d if d != "lexerr" else "parse\t(ts)\t(oracle)" for d in dumps]) if cases else []
    reqs, idx = [], []
    for c, o, mp in zip(cases, outs, mparse):
        f = o.split("\t")
        g = mp.split("\t")
        c.parse = f[0]
        if f[0] == "unavailable":
            c.parse = "ok"          # the in-process parser cannot be asked on this tree: let the compiler decide
        elif f[0] != "ok":
            c.parse_msg = unhexs(f[1]) if f[0] == "err" and len(f) > 1 else f[0]
        if g[0] != "accept":
            # outside the pattern language (the grammar rejects it): nothing to specify
            c.expect = ("parse-" + (f[0] if f[0] != "ok" else "model-reject"), [])
            continue
        c.ast = g[3]
        c.ast_from_impl = f[1] if f[0] == "ok" else None
        reqs.append("frontier\t%s\t%s\t%s\tnojoin" % (c.ast, c.value_sexp, c.meanings))
        idx.append(c)
    res = ck.lean_batch(reqs) if reqs else []
    for c, r in zip(idx, res):
        f = r.split("\t")
        if f[0] == "illtyped":
            c.expect = ("illtyped", [])
        elif f[0] == "ok":
            ents = []
            c.expect_nodes = []
            for e in (f[1].split(" ") if len(f) > 1 and f[1] else []):
                node, loc, label, actual, exp = e.split("|")
                ents.append((loc, unhexs(label), unhexs(actual), None if exp == "none" else unhexs(exp)))
                c.expect_nodes.append((int(node), loc, unhexs(label), unhexs(actual)))
            c.expect = ("ok", sorted(ents, key=lambda x: (x[0], x[1])))
        else:
            # the specification side could not read its own request (a malformed value / meaning table written by a generator or a
            # family of these checks): never a property of the code under test - fail loudly instead of counting the case as ill-typed
            raise RuntimeError("the Lean driver answered %r for a frontier request: the specification side of this case is malformed (invocation %r, value %s, meanings %s)" % (
                f[0], c.text[:200], c.value_sexp[:200], c.meanings[:300]))


def run_corpus(ck, stream, n, per_bin=20, allow_regex=True, forms=None, default_features=True, seed_salt=0, use_cache=True, positions=None, edition="2024", gen_stream=None, release=False, run_env=None):
    """Returns the list of cases with .expect (spec) and .got (implementation).
    run_env: extra environment variables of the PROCESS that runs the compiled programs (not of the build)."""
    key = "%s-%s-%d-%s-%d-%d-%s-%s" % (repo_hash(), stream, ck.seed, ck.tier, n, seed_salt, allow_regex, default_features)
    cdir = os.path.join(CACHE, "t3")
    os.makedirs(cdir, exist_ok=True)
    cpath = os.path.join(cdir, key + ".json")
    rng = random.Random("%d/%s/%d" % (ck.seed, stream, seed_salt))
    if callable(positions):
        cases = positions(rng, n)
    elif positions:
        cases = gen_position_cases(rng, n, positions, allow_regex=allow_regex, forms=forms)
    else:
        cases = gen_cases(rng, n, gen_stream or stream, allow_regex=allow_regex, forms=forms)
    import hashlib
    digest = hashlib.sha256("\n".join(c.decls_text + "|" + c.type_text + "|" + c.value_text + "|" + c.text + "|" + getattr(c, "setup", "") + getattr(c, "post", "") + getattr(c, "wrap_open", "") + (getattr(c, "custom_invocation", None) or "") for c in cases).encode()).hexdigest()[:16]
    # impl results only (the spec side is recomputed); everything that changes how the programs are BUILT is part of the key
    cpath = os.path.join(cdir, "%s-%s-%s-%s-%s-%s.json" % (repo_hash(), stream, digest, "df" if default_features else "nodf", edition, ("rel" if release else "dev") + ("-env" + hashlib.sha256(repr(sorted(run_env.items())).encode()).hexdigest()[:8] if run_env else "")))
    expected_from_lean(ck, cases)
    if use_cache and os.path.exists(cpath):
        got = json.load(open(cpath))
        for c in cases:
            gg = got[str(c.id)] if str(c.id) in got else ["missing", [], "", {}]
            c.got = (gg[0], [tuple(x) for x in gg[1]], gg[2])
            c.extra = gg[3] if len(gg) > 3 else {}
        ck.notes.append("T3 corpus %s: results reused from this run's cache (same /repo tree, seed, tier)" % stream)
        return cases
    live = [c for c in cases if c.parse == "ok"]
    for c in cases:
        c.got = ("not-run", [], "")
        if c.parse != "ok":
            c.got = ("rejected", [], "macro-%s %s" % (c.parse, getattr(c, "parse_msg", "")))
    t0 = time.time()
    for attempt in range(3):
        proj = e2e.Project("t3-%s" % stream, default_features=default_features, edition=edition, release=release)
        try:
            bins = {}
            srcs = {}
            for i in range(0, len(live), per_bin):
                name = "c%03d" % (i // per_bin)
                chunk = live[i:i + per_bin]
                srcs[name] = program(chunk)
                proj.add_bin(name, srcs[name])
                bins[name] = chunk
            res = proj.build()
            rejected = []
            for name, chunk in bins.items():
                if res[name]["ok"]:
                    rc, out, err = proj.run(name, default_features=default_features, env=run_env)
                    seen = set()
                    for line in out.split("\n"):
                        if line.startswith("X "):
                            p = line.split(" ")
                            for c in chunk:
                                if c.id == int(p[1]):
                                    if not hasattr(c, "extra"):
                                        c.extra = {}
                                    for kv in p[2:]:
                                        a, b = kv.split("=", 1)
                                        c.extra[a] = b
                        if not line.startswith("CASE "):
                            continue
                        p = line.split(" ")
                        cid = int(p[1])
                        c = [x for x in chunk if x.id == cid][0]
                        seen.add(cid)
                        if p[2] == "PASS":
                            c.got = ("pass", [], "")
                        else:
                            mi = p.index("MSG")
                            ents = []
                            for e in p[3:mi]:
                                if e == "-":
                                    continue
                                loc, label, actual, exp, span = e.split("|")
                                a = [int(x) for x in loc.split(".")]
                                if a != [0, 0, 0, 0]:
                                    a[0] -= c.first_line - 1
                                    a[2] -= c.first_line - 1
                                marked = None
                                if span != "none":
                                    b0, b1 = (int(x) for x in span.split("-"))
                                    marked = srcs[name].encode("utf-8")[b0:b1].decode("utf-8", "replace")
                                ents.append((".".join(map(str, a)), unhexs(label), unhexs(actual), None if exp == "none" else unhexs(exp), span, marked))
                            c.got = ("fail", sorted(ents, key=lambda x: (x[0], x[1])), unhexs(p[mi + 1]))
                    for c in chunk:
                        if c.id not in seen:
                            c.got = ("crashed", [], "rc=%s stderr=%s" % (rc, err[-500:]))
                else:
                    for d in res[name]["diags"]:
                        for s in d["spans"]:
                            if s["primary"]:
                                for c in chunk:
                                    if min(c.first_line - 8, getattr(c, "mod_line", c.first_line)) <= s["ls"] <= c.last_line and c not in rejected:
                                        c.got = ("rejected", [], "%s %s" % (d["code"], d["message"]))
                                        rejected.append(c)
                    if not any(c in rejected for c in chunk):
                        for c in chunk:
                            c.got = ("rejected", [], "unattributed: " + (res[name]["diags"][0]["message"] if res[name]["diags"] else "?"))
                            rejected.append(c)
            live = [c for name, chunk in bins.items() if not res[name]["ok"] for c in chunk if c not in rejected]
        finally:
            proj.cleanup()
        if not live:
            break
    ck.notes.append("T3 corpus %s: %d cases compiled and run in %.0fs" % (stream, n, time.time() - t0))
    json.dump({str(c.id): [c.got[0], c.got[1], c.got[2], getattr(c, "extra", {})] for c in cases}, open(cpath, "w"))
    # keep the cache small
    files = sorted((os.path.getmtime(os.path.join(cdir, f)), f) for f in os.listdir(cdir))
    for _, f in files[:-40]:
        os.remove(os.path.join(cdir, f))
    return cases


def _sq(x):
    """Blank-free form for comparing printed token streams (rustc and proc-macro2 space tokens differently);
    the content of string literals is kept as it is: blanks inside a literal are part of the value."""
    if x is None:
        return None
    out = []
    in_str = False
    i = 0
    while i < len(x):
        ch = x[i]
        if in_str:
            out.append(ch)
            if ch == "\\" and i + 1 < len(x):
                out.append(x[i + 1])
                i += 1
            elif ch == '"':
                in_str = False
        else:
            if ch == '"':
                in_str = True
                out.append(ch)
            elif not ch.isspace():
                out.append(ch)
        i += 1
    return "".join(out)


def compare(ck, cases, stream):
    """impl vs spec on every case; returns (stats, mismatches) where a mismatch is a dict."""
    stats = {"pass": 0, "fail": 0, "rejected": 0, "illtyped-expected": 0, "multi-failure": 0}
    mism = []
    for c in cases:
        ek, ee = c.expect
        gk, ge, gmsg = c.got
        if ek.startswith("parse-"):
            stats["rejected"] += 1
            mism.append(dict(kind="rejected", case=c))
            continue
        if ek != "ok":
            stats["illtyped-expected"] += 1
            if gk in ("pass", "fail") and ek == "illtyped":
                mism.append(dict(kind="spec-illtyped-but-compiles", case=c))
            continue
        if gk == "rejected":
            stats["rejected"] += 1
            mism.append(dict(kind="rejected", case=c))
            continue
        if gk not in ("pass", "fail"):
            mism.append(dict(kind=gk, case=c))
            continue
        stats[gk] += 1
        if len(ee) >= 2:
            stats["multi-failure"] += 1
        want_pass = (ee == [])
        if want_pass != (gk == "pass"):
            mism.append(dict(kind="verdict", case=c))
        elif gk == "fail":
            # token streams print with different spacing under rustc and in process: compare blank-free
            if [x[0] for x in ge] != [x[0] for x in ee]:
                mism.append(dict(kind="entries", case=c))
            elif [x[2] for x in ge] != [x[2] for x in ee]:
                mism.append(dict(kind="actual-text", case=c))
            elif [_sq(x[1]) for x in ge] != [_sq(x[1]) for x in ee] or [_sq(x[3]) for x in ge] != [_sq(x[3]) for x in ee]:
                mism.append(dict(kind="label", case=c))
            elif "assert_struct! failed" not in gmsg:
                mism.append(dict(kind="header", case=c))
    return stats, mism


def describe(c):
    return dict(type=c.type_text, decls=c.decls_text, value=c.value_text,
                invocation="assert_struct!(%s)" % c.text, spec=c.expect, impl=[c.got[0], c.got[1]], message=c.got[2][:1500])
