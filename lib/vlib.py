"""Shared machinery of the /verif check driver.

A check run = (1) proof obligations: build the Lean theorem module, audit axioms,
scan sources; (2) rebuild the implementation harnesses from /repo's working tree;
(3) correspondence impl-vs-model; (4) violation search impl-vs-spec; (5) evidence.
See DESIGN.md section 6.
"""
import hashlib
import json
import os
import random
import re
import subprocess
import sys
import time

ROOT = os.path.dirname(os.path.dirname(os.path.abspath(__file__)))
REPO = "/repo"
LEAN_DIR = os.path.join(ROOT, "lean")
CACHE = os.path.join(ROOT, ".cache")
REPLAYS = os.path.join(ROOT, "replays")
EVIDENCE = os.path.join(ROOT, "evidence")
DRIVER = os.path.join(LEAN_DIR, ".lake", "build", "bin", "driver")
ALLOWED_AXIOMS = {"propext", "Classical.choice", "Quot.sound"}
FORBIDDEN = re.compile(
    r"\bsorry\b|\badmit\b|^\s*axiom\s|native_decide|bv_decide|implemented_by|\bunsafe\s|maxHeartbeats\s+0"
)

ENV = dict(os.environ)
ENV["CARGO_NET_OFFLINE"] = "true"
ENV.pop("RUSTFLAGS", None)  # harness crates set their own flags in .cargo/config.toml


def sh(cmd, cwd=None, inp=None, timeout=None, env=None):
    p = subprocess.run(
        cmd, cwd=cwd, input=inp, capture_output=True, text=True, timeout=timeout, env=env or ENV
    )
    return p.returncode, p.stdout, p.stderr


def hexs(s):
    b = s.encode("utf-8") if isinstance(s, str) else s
    return b.hex() if b else "-"


def unhexs(h):
    return "" if h == "-" else bytes.fromhex(h).decode("utf-8")


def repo_hash():
    """Content hash of /repo's working tree (tracked + untracked, minus target/)."""
    rc, out, _ = sh(["git", "-C", REPO, "ls-files", "-co", "--exclude-standard"])
    h = hashlib.sha256()
    for f in sorted(out.split("\n")):
        if not f or f.startswith("target/"):
            continue
        p = os.path.join(REPO, f)
        try:
            with open(p, "rb") as fh:
                h.update(f.encode())
                h.update(b"\0")
                h.update(fh.read())
        except OSError:
            h.update(f.encode() + b"\0<missing>")
    return h.hexdigest()[:16]


class Violation(Exception):
    pass



class InprocUnavailable(Exception):
    """The in-process harness does not build on the current tree (see Check.build_harness)."""

class Check:
    def __init__(self, prop, tier, seed):
        self.prop = prop
        self.tier = tier
        self.seed = seed
        self.rng = random.Random(seed * 1000003 + int(prop[1:]))
        self.t0 = time.time()
        self.theorems = []  # (module, name, axioms)
        self.obligations = 0
        self.discharged = 0
        self.proof_failures = []  # text
        self.corr = {}  # name -> dict(evaluations, disagreements, distinct, distribution, samples)
        self.violations = []  # dict(key, what, replay)
        self.known_hits = {}  # key -> count
        self.assumptions = []
        self.trusted = [
            "Lean 4.33 kernel; axioms limited to propext, Classical.choice, Quot.sound (audited per theorem on every run)",
            "the correspondence checks (generators, harnesses, comparators) that tie the hand-written Lean model to /repo's current source",
        ]
        self.notes = []
        self.checker_cmd = ""
        os.makedirs(CACHE, exist_ok=True)
        os.makedirs(REPLAYS, exist_ok=True)
        os.makedirs(EVIDENCE, exist_ok=True)
        with open(os.path.join(ROOT, "known_findings.json")) as fh:
            self.known = json.load(fh)["findings"]

    # ------------------------------------------------------------------ proof side
    def prove(self, modules):
        """Build the theorem modules (and the driver), audit axioms, scan sources."""
        # the generated wiring table follows /repo's manifests on every run (the driver links it)
        sh(["python3", os.path.join(ROOT, "tools", "gen_wiring.py")])
        targets = list(modules) + ["driver"]
        self.checker_cmd = "cd /verif/lean && lake build " + " ".join(targets) + \
            " && lake env lean --run Audit.lean <module>  (axiom audit)" + \
            (" && lake env leanchecker <module>" if self.tier == "thorough" else "")
        rc, out, err = sh(["lake", "build"] + targets, cwd=LEAN_DIR, timeout=3600)
        if rc != 0:
            self.proof_failures.append("lake build failed:\n" + (out + err)[-4000:])
            return False
        declared = self._declared_theorems()
        seen = set()
        for m in modules:
            rc, out, err = sh(["lake", "env", "lean", "--run", "Audit.lean", m], cwd=LEAN_DIR, timeout=1800)
            if rc != 0:
                self.proof_failures.append("axiom audit failed for %s:\n%s" % (m, (out + err)[-2000:]))
                continue
            for line in out.split("\n"):
                if not line.startswith("thm "):
                    continue
                parts = line.split(" ")
                mod, name, axs = parts[1], parts[2], [a for a in parts[3:] if a]
                if not (mod.startswith("AsModel.Theorems") or mod.startswith("AsModel.Proofs")):
                    continue
                short = name.split(".")[-1]
                if short not in declared or (mod, name) in seen:
                    continue
                seen.add((mod, name))
                self.theorems.append((mod, name, axs))
                self.obligations += 1
                bad = [a for a in axs if a not in ALLOWED_AXIOMS]
                if bad:
                    self.proof_failures.append("theorem %s depends on axioms %s" % (name, bad))
                else:
                    self.discharged += 1
        # source scan
        for dirpath, _, files in os.walk(LEAN_DIR):
            if ".lake" in dirpath:
                continue
            for f in files:
                if not f.endswith(".lean"):
                    continue
                p = os.path.join(dirpath, f)
                txt = open(p).read()
                txt = re.sub(r"/-.*?-/", "", txt, flags=re.S)
                for ln in txt.split("\n"):
                    code = ln.split("--")[0]
                    if FORBIDDEN.search(code):
                        self.proof_failures.append("forbidden construct in %s: %s" % (p, ln.strip()))
        if self.tier == "thorough":
            for m in modules:
                rc, out, err = sh(["lake", "env", "leanchecker", m], cwd=LEAN_DIR, timeout=3600)
                if rc != 0:
                    self.proof_failures.append("leanchecker rejected %s: %s" % (m, (out + err)[-1000:]))
        if self.obligations == 0 and not self.proof_failures:
            self.proof_failures.append("no theorem found in " + ",".join(modules))
        return not self.proof_failures

    def _declared_theorems(self):
        names = set()
        for sub in ("Theorems", "Proofs"):
            d = os.path.join(LEAN_DIR, "AsModel", sub)
            for f in os.listdir(d):
                if f.endswith(".lean"):
                    for m in re.finditer(r"^\s*(?:private\s+)?theorem\s+([^\s:({\[]+)", open(os.path.join(d, f)).read(), re.M):
                        names.add(m.group(1).split(".")[-1])
        return names

    # ------------------------------------------------------------------ impl side
    def build_harness(self, name):
        d = os.path.join(ROOT, "harness", name)
        # keep the lock file in step with /repo's
        try:
            src = open(os.path.join(REPO, "Cargo.lock")).read()
            dst = os.path.join(d, "Cargo.lock")
            if not os.path.exists(dst):
                open(dst, "w").write(src)
        except OSError:
            pass
        if name == "inproc":
            # the macro crate's current sources are compiled into the harness (T1/T2)
            rc, out, err = sh(["./sync.sh"], cwd=d)
            if rc != 0:
                raise RuntimeError("sync of macro sources failed: " + err)
            lib = open(os.path.join(REPO, "assert-struct-macros", "src", "lib.rs")).read()
            if not re.search(r"struct AssertStruct \{\s*value: syn::Expr,\s*pattern: Pattern,\s*\}", lib) or \
               not re.search(r"let assert = match syn::parse\(input\) \{\s*Ok\(assert\) => assert,\s*Err\(err\) => return TokenStream::from\(err\.to_compile_error\(\)\),\s*\};\s*(//[^\n]*\s*)*let expanded = expand::expand\(&assert\);", lib):
                # the in-process harness calls `syn::parse2::<AssertStruct>` and `expand::expand` itself: it does not run the proc-macro entry
                # point, which has changed shape.  What the ties say is then about the parser and generator only - reported once, as a
                # broken correspondence; everything compiled by rustc still goes through the real entry point.
                if not getattr(self, "_entry_reported", False):
                    self._entry_reported = True
                    self.report("corr:entry-point-shape", "assert-struct-macros/src/lib.rs no longer has the entry-point shape the in-process harness mirrors (struct AssertStruct { value, pattern }; syn::parse(input) -> expand::expand(&assert)): the in-process ties no longer speak about the macro as invoked",
                                dict(broken="correspondences T1 / T2 as statements about the macro's entry point (harness/inproc/src/main.rs mirrors it)"), no_input=True)
        # cargo decides freshness by mtime; a tree restored with old mtimes would leave a stale
        # binary.  Whenever the content hash of /repo differs from the one last built, force the
        # crates that come from /repo to be rebuilt.
        stamp = os.path.join(CACHE, "built-%s.hash" % name)
        h = repo_hash()
        last = open(stamp).read().strip() if os.path.exists(stamp) else ""
        if last != h:
            if name == "inproc":
                os.utime(os.path.join(d, "src", "main.rs"), None)
            else:
                sh(["cargo", "clean", "--release", "--offline", "-p", "assert-struct", "-p", "assert-struct-macros"], cwd=d)
        if name == "inproc":
            # the token-level tool first: it depends on syn / proc-macro2 only and must always build (the specification side is fed from it)
            rc, out, err = sh(["cargo", "build", "--release", "--offline", "--bin", "toks"], cwd=d, timeout=3600)
            if rc != 0:
                raise RuntimeError("cargo build of the token tool (harness inproc, bin toks) failed:\n%s" % err[-6000:])
            rc, out, err = sh(["cargo", "build", "--release", "--offline", "--bin", "inproc"], cwd=d, timeout=3600)
            if rc != 0:
                # The harness's AST printer mirrors the macro crate's own pattern types: a change to those types stops it from compiling.
                # That breaks the ties that run the real parser / generator in process (T1, T2) - reported once, as a broken correspondence -
                # but not the checks' other parts (compiled programs, runtime harness), which go on and may still find a failing input.
                try:
                    os.remove(os.path.join(CACHE, "target", "inproc", "release", "inproc"))
                except OSError:
                    pass
                self.inproc_broken = err[-3000:]
                if not getattr(self, "_inproc_reported", False):
                    self._inproc_reported = True
                    self.report("corr:inproc-harness-build", "the in-process harness no longer compiles against the macro crate's sources: the ties that run the real parser and code generator in process (T1, T2) cannot be evaluated",
                                dict(broken="correspondences T1 / T2 (harness/inproc: its AST printer mirrors the macro crate's pattern types)", rustc=err[-3000:]), no_input=True)
                open(stamp, "w").write(h)
                return os.path.join(CACHE, "target", name, "release")
            self.inproc_broken = None
            open(stamp, "w").write(h)
            return os.path.join(CACHE, "target", name, "release")
        rc, out, err = sh(["cargo", "build", "--release", "--offline"], cwd=d, timeout=3600)
        if rc != 0:
            raise RuntimeError("cargo build of harness %s failed:\n%s" % (name, err[-6000:]))
        if name == "rt":
            # the same harness without debug assertions and overflow checks (an optimised dependent build): the
            # runtime crate must behave the same in both
            if last != h:
                sh(["cargo", "clean", "--profile", "nodebug", "--offline", "-p", "assert-struct", "-p", "assert-struct-macros"], cwd=d)
            rc, out, err = sh(["cargo", "build", "--profile", "nodebug", "--offline"], cwd=d, timeout=3600)
            if rc != 0:
                raise RuntimeError("cargo build of harness rt (profile nodebug) failed:\n%s" % err[-6000:])
        open(stamp, "w").write(h)
        return os.path.join(CACHE, "target", name, "release")

    def lean_batch(self, lines):
        rc, out, err = sh([DRIVER], inp="\n".join(lines) + "\n", timeout=3600)
        if rc != 0:
            raise RuntimeError("lean driver failed: " + err[-2000:])
        res = out.split("\n")
        if res and res[-1] == "":
            res.pop()
        if len(res) != len(lines):
            raise RuntimeError("lean driver answered %d lines for %d requests" % (len(res), len(lines)))
        return res

    def rt_batch(self, lines, binary="rt", harness="rt", cwd=None, env=None, profile="release"):
        if harness == "inproc":
            # token-level requests go to the stand-alone tool; the rest needs the real parser / generator in process
            if lines and all(l.startswith(("toks ", "ptoks ")) for l in lines):
                binary = "toks"
            elif getattr(self, "inproc_broken", None):
                # the real parser / generator cannot be run in process on this tree: every request is answered `unavailable`
                # (callers skip their comparison; the broken tie itself was reported by build_harness)
                return ["unavailable" if l.startswith(("run ", "runq ")) else "lexerr" for l in lines]
        exe = os.path.join(CACHE, "target", harness, profile, binary)
        rc, out, err = sh([exe], inp="\n".join(lines) + "\n", timeout=3600, cwd=cwd, env=env)
        if rc != 0:
            raise RuntimeError("harness %s failed (rc=%s): %s" % (binary, rc, err[-2000:]))
        res = out.split("\n")
        if res and res[-1] == "":
            res.pop()
        if len(res) != len(lines):
            raise RuntimeError("harness answered %d lines for %d requests" % (len(res), len(lines)))
        # every deterministic request of the runtime harness is also put to the build WITHOUT debug assertions and
        # overflow checks: the runtime crate must answer the same in an optimised dependent build
        if harness == "rt" and profile == "release" and env is None and cwd is None and \
                not any(l.startswith(("sched", "conc", "setenv", "unsetenv")) for l in lines):
            exe2 = os.path.join(CACHE, "target", harness, "nodebug", binary)
            if os.path.exists(exe2):
                rc2, out2, err2 = sh([exe2], inp="\n".join(lines) + "\n", timeout=3600)
                res2 = out2.split("\n")
                if res2 and res2[-1] == "":
                    res2.pop()
                self.profile_requests = getattr(self, "profile_requests", 0) + len(lines)
                if rc2 != 0 or len(res2) != len(res):
                    self.profile_diffs = getattr(self, "profile_diffs", []) + [dict(request="(whole batch)", with_debug_assertions="%d answers" % len(res), without="rc=%s, %d answers: %s" % (rc2, len(res2), err2[-300:]))]
                else:
                    for l, a, b in zip(lines, res, res2):
                        if a != b:
                            self.profile_diffs = getattr(self, "profile_diffs", []) + [dict(request=l[:600], with_debug_assertions=a[:400], without=b[:400])]
        return res

    # ------------------------------------------------------------------ bookkeeping
    def corr_record(self, name, evaluations, distinct_nontrivial, disagreements, distribution=None, samples=None, exhaustive=False, rule=""):
        c = self.corr.setdefault(name, dict(evaluations=0, distinct_nontrivial=0, disagreements=0, distribution={}, samples=[], exhaustive=exhaustive, rule=rule))
        c["evaluations"] += evaluations
        c["distinct_nontrivial"] += distinct_nontrivial
        c["disagreements"] += disagreements
        if distribution:
            for k, v in distribution.items():
                c["distribution"][k] = c["distribution"].get(k, 0) + v
        if samples:
            c["samples"] = (c["samples"] + samples)[:6]

    def finding_for(self, key):
        for f in self.known:
            if f.get("property") == self.prop and f.get("status") == "open" and (
                    f.get("key") == key or (f.get("key", "").endswith("*") and key.startswith(f["key"][:-1]))):
                return f
        return None

    def report(self, key, what, replay, no_input=False):
        """A property violation (impl contradicts spec, or an obligation/correspondence
        no longer checks).  Known (open) findings are printed and do not fail the run."""
        f = self.finding_for(key)
        if f is not None and not no_input:
            self.known_hits[key] = self.known_hits.get(key, 0) + 1
            return
        if any(v["key"] == key for v in self.violations):
            return
        if len(self.violations) >= 6:
            # enough replays; keep counting
            self.more_violations = getattr(self, "more_violations", 0) + 1
            return
        path = os.path.join(REPLAYS, "%s-%s.json" % (self.prop, re.sub(r"[^A-Za-z0-9_.-]", "_", key)[:80]))
        replay = dict(replay)
        replay.update(property=self.prop, key=key, what=what, seed=self.seed, tier=self.tier,
                      repo_hash=repo_hash(), no_failing_input_found=no_input,
                      reproduce="cd /verif && VERIF_SEED=%d ./check %s --tier %s" % (self.seed, self.prop, self.tier))
        with open(path, "w") as fh:
            json.dump(replay, fh, indent=1, ensure_ascii=False)
        self.violations.append(dict(key=key, what=what, replay=path, no_input=no_input))

    def finish(self, level_note=""):
        if getattr(self, "profile_requests", 0):
            diffs = getattr(self, "profile_diffs", [])
            self.corr_record("T4 two build profiles (every deterministic request of the runtime harness answered by the build with and by the build without debug assertions / overflow checks)",
                             self.profile_requests, self.profile_requests, len(diffs), {}, samples=diffs[:2], rule="the requests of this run's T4 ties")
            if diffs and not [v for v in self.violations if not v["no_input"]]:
                self.report("profile-dependent", "the runtime crate behaves differently when built without debug assertions / overflow checks",
                            dict(first=diffs[:3], count=len(diffs), broken="correspondence T4/build profiles: the model describes one behaviour"), no_input=True)
        # proof obligations that no longer check are violations without a failing input,
        # unless the search already produced one
        if self.proof_failures and not [v for v in self.violations if not v["no_input"]]:
            self.report("proof-obligation", "a proof obligation of %s no longer checks" % self.prop,
                        dict(failures=self.proof_failures), no_input=True)
        wall = time.time() - self.t0
        evals = sum(c["evaluations"] for c in self.corr.values())
        distinct = sum(c["distinct_nontrivial"] for c in self.corr.values())
        samples = []
        for n, c in self.corr.items():
            for s in c["samples"][:3]:
                samples.append({"tie": n, "case": s})
        for (m, n, a) in self.theorems[:0]:
            pass
        prop_thms = [dict(name=n, module=m, axioms=a) for (m, n, a) in self.theorems if m.startswith("AsModel.Theorems")]
        ev = dict(
            property_id=self.prop, tier=self.tier, seed=self.seed, level="proof",
            coverage=dict(
                obligations=self.obligations, discharged=self.discharged,
                checker_cmd=self.checker_cmd, trusted_base=self.trusted,
                property_theorems=prop_thms,
                helper_lemmas=self.obligations - len(prop_thms),
                evaluations=evals, distinct_nontrivial=distinct,
                rule="per tie, see correspondence[*].rule; counts are measured by the driver on this run",
                correspondence=self.corr,
                samples=samples or [{"note": "no correspondence case ran"}],
                known_findings_hit=self.known_hits,
                repo_hash=repo_hash(),
                notes=self.notes,
            ),
            assumptions=self.assumptions,
            wall_s=round(wall, 2),
            violations=len(self.violations),
        )
        with open(os.path.join(EVIDENCE, self.prop + ".json"), "w") as fh:
            json.dump(ev, fh, indent=1, ensure_ascii=False)
        # a violation with a failing input supersedes "no failing input found" reports
        if any(not v["no_input"] for v in self.violations):
            self.violations = [v for v in self.violations if not v["no_input"]]
            ev["violations"] = len(self.violations)
            with open(os.path.join(EVIDENCE, self.prop + ".json"), "w") as fh:
                json.dump(ev, fh, indent=1, ensure_ascii=False)
        agg = {}
        for k, n in sorted(self.known_hits.items()):
            f = self.finding_for(k)
            agg[f["key"]] = (f, agg.get(f["key"], (f, 0))[1] + n)
        for fk, (f, n) in sorted(agg.items()):
            print("KNOWN-FINDING: property=%s %s (%d explored inputs hit it)" % (self.prop, f["what"], n))
        for v in self.violations:
            print("VIOLATION property=%s replay=%s%s" % (self.prop, v["replay"], " no-failing-input-found" if v["no_input"] else ""))
            print("  " + v["what"])
        if getattr(self, "more_violations", 0):
            print("(%d further violating inputs not written out)" % self.more_violations)
        print("%s %s: obligations %d/%d, correspondence evaluations %d, violations %d, %.1fs" % (
            self.prop, self.tier, self.discharged, self.obligations, evals, len(self.violations), wall))
        return 1 if self.violations else 0
