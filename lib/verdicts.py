"""Shared body of the C01 / C02 / C03 / C05 checks: T2 + the T3 corpora, each property
looking at its own aspect of the same comparison."""
import t2
import t3


def streams(ck):
    n = 220 if ck.tier == "quick" else 2500
    out = {}
    for s in ("matching", "nearmiss", "mixed"):
        out[s] = t3.run_corpus(ck, s, n, per_bin=20)
    # the calling crate's edition is part of "every program": one stream compiled as an edition-2018 crate
    out["mixed-edition-2018"] = t3.run_corpus(ck, "mixed-edition-2018", 80 if ck.tier == "quick" else 600, per_bin=20, edition="2018", gen_stream="mixed", seed_salt=7)
    # ... and one as an optimised build without debug assertions / overflow checks
    out["mixed-release-profile"] = t3.run_corpus(ck, "mixed-release-profile", 60 if ck.tier == "quick" else 600, per_bin=20, release=True, gen_stream="mixed", seed_salt=11)
    return out


def binding_path_cases(rng, _n):
    """Documented-looking value patterns that are paths: an identifier, a zero-argument call,
    a reference to a local.  The documentation lists `my_variable` and `compute_value()` as
    simple value patterns (compared by equality)."""
    import tgen
    cases = []
    decl = "#[derive(Debug)] pub struct W { pub f: i32, pub s: String }\npub fn five() -> i32 { 5 }\npub const K: i32 = 3;"
    val = 'W { f: 3, s: "abc".to_string() }'
    sexp = "(adt %s (names %s %s) (vals (int 3) (str %s)))" % (tgen.hexs("W"), tgen.hexs("f"), tgen.hexs("s"), tgen.hexs("abc"))
    for k, (pat, setup, meaning) in enumerate([
        ("W { f: expected, .. }", "let expected = 99i32;", "(v %s (int 99))" % tgen.hexs("expected")),
        ("W { f: five(), .. }", "", "(v %s (int 5))" % tgen.hexs("five")),
        ("W { f: K, .. }", "", "(v %s (int 3))" % tgen.hexs("K")),
        ("W { f: expected, .. }", "let expected = 3i32;", "(v %s (int 3))" % tgen.hexs("expected")),
    ]):
        c = t3.Case()
        c.id = k
        c.forms = {"binding-path": 1}
        c.perturbed = True
        c.meanings = "(meanings %s)" % meaning
        t3.finish_case(c, decl, "W", val, sexp, pat)
        c.setup = setup
        cases.append(c)
    return cases


def range_in_slice_cases(rng, _n):
    """Range-shaped elements written directly in a slice pattern (`..N`, `..=N`, `M..`, `M..N`) next to
    the rest marker `..`: only a bare `..` is the rest; every other range is an element pattern that
    must be checked and counts towards the length."""
    import tgen
    cases = []
    k = 0

    def rng_text(lo, hi, incl):
        return ("" if lo is None else str(lo)) + ("..=" if incl else "..") + ("" if hi is None else str(hi))

    shapes = [(None, 5, False), (None, 5, True), (3, None, False), (3, 6, False), (3, 6, True)]
    values = [[], [4], [5], [7], [4, 7], [5, 7], [7, 4], [4, 7, 9], [9, 7, 4], [2, 7]]
    for (lo, hi, incl) in shapes:
        rt = rng_text(lo, hi, incl)
        for pat_elems in ([rt], [rt, "7"], ["7", rt], [rt, ".."], ["..", rt], [rt, "..", "9"], [rt, rt]):
            for val in values:
                if len(cases) >= 400:
                    break
                c = t3.Case()
                c.id = k
                k += 1
                c.forms = {"range-in-slice": 1}
                c.perturbed = True
                ms = ["(r %s %s %s %s)" % (tgen.hexs(rt), "none" if lo is None else "(int %d)" % lo, "none" if hi is None else "(int %d)" % hi, "true" if incl else "false")]
                for lit in ("7", "9"):
                    ms.append("(v %s (int %s))" % (tgen.hexs(lit), lit))
                c.meanings = "(meanings %s)" % " ".join(ms)
                t3.finish_case(c, "", "Vec<i32>", "vec![%s]" % ", ".join("%di32" % x for x in val) if val else "Vec::<i32>::new()",
                               "(seq %s)" % " ".join("(int %d)" % x for x in val), "[%s]" % ", ".join(pat_elems))
                cases.append(c)
    return cases


def set_history_cases(rng, _n):
    """A matching set assertion after earlier set assertions on the same thread (larger, smaller,
    equal collections; passing and failing): the verdict must not depend on the history."""
    import tgen
    cases = []
    k = 0
    priors = ["", "assert_struct!(vec![1, 2, 3, 4, 5], #(1, ..));", "assert_struct!(vec![1, 2, 3, 4, 5, 6, 7, 8, 9], #(9, 1, ..));",
              "assert_struct!(vec![3], #(3));", "let _ = std::panic::catch_unwind(|| { assert_struct!(vec![1, 2, 3, 4, 5, 6], #(7, ..)); });",
              "assert_struct!(vec![vec![1, 2, 3, 4], vec![5]], #([5], [1, ..]));"]
    # (pattern, meanings, values): first-fit dead ends that need backtracking, with and without rest
    current = [
        ("#(> 5, == 10)", [("5", 5), ("10", 10)], [[10, 7], [7, 10]]),
        ("#(> 5, == 10, ..)", [("5", 5), ("10", 10)], [[10, 7, 1], [1, 10, 7], [10, 7]]),
        ("#(>= 1, >= 2, >= 3)", [("1", 1), ("2", 2), ("3", 3)], [[3, 2, 1], [3, 1, 2], [1, 2, 3]]),
        ("#(< 9, == 2, ..)", [("9", 9), ("2", 2)], [[2, 8], [2, 8, 11, 12]]),
    ]
    for prior in priors:
        for (pat, lits, vals) in current:
            for val in vals:
                c = t3.Case()
                c.id = k
                k += 1
                c.forms = {"set-after-history": 1}
                c.perturbed = False
                c.meanings = "(meanings %s)" % " ".join("(v %s (int %d))" % (tgen.hexs(t), v) for t, v in lits)
                t3.finish_case(c, "", "Vec<i32>", "vec![%s]" % ", ".join("%di32" % x for x in val), "(seq %s)" % " ".join("(int %d)" % x for x in val), pat)
                c.setup = prior
                cases.append(c)
    return cases


def set_size_boundary_cases(rng, _n):
    """Set patterns on collections whose SIZE sits on a machine boundary (31-33, 63-65, 127-129, 255-257 elements): a needed
    match at the first, the last and the word-boundary positions, with `..`; an implementation that keeps per-element state in a
    machine word (bit masks, small-set fast paths) is wrong exactly here and nowhere else."""
    import tgen
    cases = []
    k = 0
    for n in (31, 32, 33, 63, 64, 65, 127, 128, 129, 255, 256, 257):
        vals = list(range(n))
        pats = [("#(== %d, ..)" % (n - 1), [n - 1]), ("#(== 0, ..)", [0]), ("#(>= %d, >= %d, ..)" % (n - 2, n - 1), [n - 2, n - 1]),
                ("#(== %d, ..)" % n, [n]), ("#(>= %d, >= %d, ..)" % (n - 1, n - 1), [n - 1]),
                ("#(== %d, == %d, ..)" % (n - 1, (n - 1) // 2), [n - 1, (n - 1) // 2])]
        if n >= 65:
            pats.append(("#(== 64, ..)", [64]))
            pats.append(("#(== 63, == 64, ..)", [63, 64]))
        for pat, lits in pats:
            c = t3.Case()
            c.id = k
            k += 1
            c.forms = {"set-size-boundary": 1}
            c.perturbed = False
            c.meanings = "(meanings %s)" % " ".join("(v %s (int %d))" % (tgen.hexs(str(v)), v) for v in sorted(set(lits)))
            t3.finish_case(c, "", "Vec<i32>", "vec![%s]" % ", ".join("%di32" % x for x in vals), "(seq %s)" % " ".join("(int %d)" % x for x in vals), pat)
            cases.append(c)
    return cases


def repeated_leaf_text_cases(rng, _n):
    """Sibling sub-patterns with TEXTUALLY IDENTICAL leaves (`"a": > 5, "b": > 5`; `(> 5, > 5)`; `[1, 1, 1]`): the first, a later
    one, or both fail. Each leaf is a sub-pattern of its own (own node, own location, own entry); anything keyed by the leaf's text
    (memo tables, de-duplication) confuses them only here."""
    import tgen
    cases = []
    k = 0
    leaves = [("> 5", [("5", 5)], lambda x: x > 5), ("1", [("1", 1)], lambda x: x == 1), ("== 7", [("7", 7)], lambda x: x == 7),
              ("2..=4", "(r %s (int 2) (int 4) true)" % tgen.hexs("2..=4"), lambda x: 2 <= x <= 4), ("!= 0", [("0", 0)], lambda x: x != 0)]
    for leaf, lits, ok in leaves:
        good = next(x for x in (9, 1, 7, 3) if ok(x))
        bad = next(x for x in (0, 5, 8, 1) if not ok(x))
        for n in (2, 3):
            for mask in range(1 << n):
                vals = [bad if (mask >> i) & 1 else good for i in range(n)]
                keys = ["a", "b", "c"][:n]
                shapes = [
                    ("BTreeMap<String, i32>", "BTreeMap::<String, i32>::from([%s])" % ", ".join('("%s".to_string(), %d)' % (kk, v) for kk, v in zip(keys, vals)),
                     "(map (keys %s) (vals %s))" % (" ".join("(str %s)" % tgen.hexs(kk) for kk in keys), " ".join("(int %d)" % v for v in vals)),
                     "#{ %s }" % ", ".join('"%s": %s' % (kk, leaf) for kk in keys), [('"%s"' % kk, "(str %s)" % tgen.hexs(kk)) for kk in keys]),
                    ("(%s)" % ", ".join(["i32"] * n), "(%s)" % ", ".join("%di32" % v for v in vals), "(tuple %s)" % " ".join("(int %d)" % v for v in vals),
                     "(%s)" % ", ".join([leaf] * n), []),
                    ("Vec<i32>", "vec![%s]" % ", ".join("%di32" % v for v in vals), "(seq %s)" % " ".join("(int %d)" % v for v in vals),
                     "[%s]" % ", ".join([leaf] * n), []),
                    ("Option<(%s)>" % ", ".join(["i32"] * n), "Some((%s))" % ", ".join("%di32" % v for v in vals),
                     "(variant %s (tuple %s))" % (tgen.hexs("Some"), " ".join("(int %d)" % v for v in vals)) if False else None,
                     "Some((%s))" % ", ".join([leaf] * n), []),
                ]
                for ty, vt, sx, pat, extra in shapes:
                    if sx is None:
                        continue
                    c = t3.Case()
                    c.id = k
                    k += 1
                    c.forms = {"repeated-leaf-text": 1}
                    c.perturbed = mask != 0
                    c.meanings = "(meanings %s)" % " ".join(([lits] if isinstance(lits, str) else ["(v %s (int %d))" % (tgen.hexs(t), v) for t, v in lits]) + ["(v %s %s)" % (tgen.hexs(t), v) for t, v in extra])
                    t3.finish_case(c, "", ty, vt, sx, pat)
                    cases.append(c)
    return cases


def map_wild_cases(rng, _n):
    """Map patterns whose value pattern is the wildcard: `"k": _` still requires the key."""
    import tgen
    cases = []
    k = 0
    maps = [[], [("k", 1)], [("j", 1)], [("k", 1), ("j", 2)], [("a", 5), ("j", 2)]]
    pats = ['#{ "k": _, .. }', '#{ "k": _ }', '#{ "j": 2, "k": _, .. }', '#{ "k": _, "j": _, .. }', '#{ "k": _, "j": 2 }', '#{ "k": 1, .. }']
    for pat in pats:
        for m in maps:
            c = t3.Case()
            c.id = k
            k += 1
            c.forms = {"map-wildcard-value": 1}
            c.perturbed = True
            c.meanings = "(meanings (v %s (str %s)) (v %s (str %s)) (v %s (int 1)) (v %s (int 2)))" % (
                tgen.hexs('"k"'), tgen.hexs("k"), tgen.hexs('"j"'), tgen.hexs("j"), tgen.hexs("1"), tgen.hexs("2"))
            val = "BTreeMap::<String, i32>::from([%s])" % ", ".join('("%s".to_string(), %d)' % kv for kv in m)
            sx = "(map (keys %s) (vals %s))" % (" ".join("(str %s)" % tgen.hexs(a) for a, _ in m), " ".join("(int %d)" % b for _, b in m))
            t3.finish_case(c, "", "BTreeMap<String, i32>", val, sx, pat)
            cases.append(c)
    return cases


def wildcard_shadow_cases(rng, _n):
    """A wildcard struct nested in a named struct (or variant) that has a field of the same name written after it,
    and other sibling arrangements: each field assertion is about its own struct's field."""
    import tgen
    cases = []
    k = 0
    decl = ("#[derive(Debug)] pub struct In { pub id: i32, pub tag: i32 }\n#[derive(Debug)] pub struct Out { pub inner: In, pub id: i32, pub tag: i32 }\n"
            "#[derive(Debug)] pub enum Ev { V { inner: In, id: i32 } }")
    adt = lambda ctor, names, vals: "(adt %s (names %s) (vals %s))" % (tgen.hexs(ctor), " ".join(tgen.hexs(n) for n in names), " ".join(vals))
    pats = ["Out { inner: _ { id: %d, .. }, id: %d, .. }", "Out { id: %d, inner: _ { id: %d, .. }, .. }", "Out { inner: _ { id: > %d, .. }, id: > %d, tag: 0, .. }",
            "Out { inner: _ { tag: %d, id: %d, .. }, .. }", "Out { inner: _ { id: %d, .. }, inner.id: %d, .. }"]
    for (iid, oid) in ((1, 7), (7, 1), (3, 3)):
        val = "Out { inner: In { id: %d, tag: 0 }, id: %d, tag: 0 }" % (iid, oid)
        sx = adt("Out", ["inner", "id", "tag"], [adt("In", ["id", "tag"], ["(int %d)" % iid, "(int 0)"]), "(int %d)" % oid, "(int 0)"])
        for pt in pats:
            for (a, b) in ((1, 7), (7, 1), (1, 1), (7, 7), (3, 3), (0, 5)):
                c = t3.Case()
                c.id = k
                k += 1
                c.forms = {"wildcard-struct-sibling": 1}
                c.perturbed = True
                c.meanings = "(meanings %s)" % " ".join("(v %s (int %d))" % (tgen.hexs(str(x)), x) for x in (0, 1, 3, 5, 7))
                t3.finish_case(c, decl, "Out", val, sx, pt % (a, b))
                cases.append(c)
        vval = "Ev::V { inner: In { id: %d, tag: 0 }, id: %d }" % (iid, oid)
        vsx = adt("V", ["inner", "id"], [adt("In", ["id", "tag"], ["(int %d)" % iid, "(int 0)"]), "(int %d)" % oid])
        for (a, b) in ((1, 7), (7, 1), (3, 3), (1, 1)):
            c = t3.Case()
            c.id = k
            k += 1
            c.forms = {"wildcard-struct-sibling": 1}
            c.perturbed = True
            c.meanings = "(meanings %s)" % " ".join("(v %s (int %d))" % (tgen.hexs(str(x)), x) for x in (0, 1, 3, 5, 7))
            t3.finish_case(c, decl, "Ev", vval, vsx, "Ev::V { inner: _ { id: %d, .. }, id: %d }" % (a, b))
            cases.append(c)
    return cases


def guard_temp_cases(rng, _n):
    """Field paths that go through a guard-returning method (`RefCell::borrow_mut`, `Mutex::lock`): every field assertion must
    release what its path borrowed before the next one runs, whatever the kinds and the order of the two patterns.
    All values match: every assertion must return."""
    import tgen
    cases = []
    k = 0
    decl = ("#[derive(Debug)] pub struct In { pub s: String, pub n: i32 }\n"
            "#[derive(Debug)] pub struct W { pub c: std::cell::RefCell<In>, pub m: std::sync::Mutex<In> }\n"
            "pub struct Pre(pub &'static str);\nimpl Like<Pre> for String { fn like(&self, p: &Pre) -> bool { self.starts_with(p.0) } }")
    adt = lambda ctor, names, vals: "(adt %s (names %s) (vals %s))" % (tgen.hexs(ctor), " ".join(tgen.hexs(n) for n in names), " ".join(vals))
    inner = adt("In", ["s", "n"], ["(str %s)" % tgen.hexs("abc"), "(int 1)"])
    sx = adt("W", ["c", "m"], [inner, inner])
    val = 'W { c: std::cell::RefCell::new(In { s: "abc".to_string(), n: 1 }), m: std::sync::Mutex::new(In { s: "abc".to_string(), n: 1 }) }'
    # (no closure on the String: after a field operation a closure gets the place by value - the open finding C09 moves:place/closure)
    spats = ['"abc"', '== "abc"', '!= "x"', '=~ Pre("ab")', '=~ "a.c"']
    npats = ["1", "== 1", "> 0", "0..=5", "|x| x == 1"]
    meanings = "(meanings (v %s (str %s)) (v %s (str %s)) (v %s (int 1)) (v %s (int 0)) (r %s (int 0) (int 5) true) (p %s (len eq 3)) (p %s (cmp eq (int 1))) (p %s (prefix %s)) (p %s (const true)) (m %s %s) (m %s %s) (m %s %s))" % (
        tgen.hexs('"abc"'), tgen.hexs("abc"), tgen.hexs('"x"'), tgen.hexs("x"), tgen.hexs("1"), tgen.hexs("0"), tgen.hexs("0..=5"),
        tgen.hexs(tgen.squash("|x| x.len() == 3")), tgen.hexs(tgen.squash("|x| x == 1")), tgen.hexs(tgen.squash('Pre("ab")')), tgen.hexs("ab"), tgen.hexs("a.c"),
        tgen.hexs("borrow_mut"), tgen.hexs("id"), tgen.hexs("try_lock"), tgen.hexs("id"), tgen.hexs("unwrap"), tgen.hexs("id"))
    for (acc, fld) in (("c.borrow_mut()", "c"), ("m.try_lock().unwrap()", "m")):
        for sp_ in spats:
            for np_ in npats:
                for order in (0, 1):
                    parts = ["%s.s: %s" % (acc, sp_), "%s.n: %s" % (acc, np_)]
                    if order:
                        parts.reverse()
                    for shell in ("W { %s, .. }", "_ { %s, .. }"):
                        c = t3.Case()
                        c.id = k
                        k += 1
                        c.forms = {"guard-temporaries": 1}
                        c.perturbed = False
                        c.meanings = meanings
                        t3.finish_case(c, decl, "W", val, sx, shell % ", ".join(parts))
                        cases.append(c)
    return cases


def tuple_index_chain_cases(rng, _n):
    """Chains of tuple indices in field paths (`c.0.1` reaches the macro as the float literal `0.1`): every (A, B) of a 2 x 2 and a
    3 x 3 tuple of tuples, with the element's own value (passes) and with the mirrored / a sibling element's value (fails unless equal),
    through named and wildcard structs, after a method call, and three levels deep."""
    import tgen
    cases = []
    k = 0
    decl = ("#[derive(Debug, Clone)] pub struct T4 { pub c: ((i32, i32), (i32, i32)), pub d: ((i32, i32, i32), (i32, i32, i32), (i32, i32, i32)), pub e: (((i32, i32), (i32, i32)), ((i32, i32), (i32, i32))) }")
    cv = ((11, 22), (33, 44))
    dv = ((1, 2, 3), (4, 5, 6), (7, 8, 9))
    ev = (((1, 2), (3, 4)), ((5, 6), (7, 8)))
    tup = lambda t: "(tuple %s)" % " ".join(tup(x) if isinstance(x, tuple) else "(int %d)" % x for x in t)
    val = "T4 { c: %r, d: %r, e: %r }" % (cv, dv, ev)
    sx = "(adt %s (names %s) (vals %s %s %s))" % (tgen.hexs("T4"), " ".join(tgen.hexs(n) for n in ("c", "d", "e")), tup(cv), tup(dv), tup(ev))
    nums = sorted({x for t in cv for x in t} | {x - 1 for t in cv for x in t} | {x for t in dv for x in t} | {x for a in ev for b in a for x in b} | {0, 99})
    meanings = "(meanings %s (m %s %s))" % (" ".join("(v %s (int %d))" % (tgen.hexs(str(x)), x) for x in nums), tgen.hexs("clone"), tgen.hexs("id"))
    pats = []
    for a in range(2):
        for b in range(2):
            for w in (cv[a][b], cv[b][a], cv[a][a], 99):
                pats += ["T4 { c.%d.%d: %d, .. }" % (a, b, w), "_ { c.%d.%d: == %d, .. }" % (a, b, w)]
            pats += ["T4 { c.%d.%d: > %d, c.%d.%d: %d, .. }" % (a, b, cv[a][b] - 1, b, a, cv[b][a]), "T4 { c.clone().%d.%d: %d, .. }" % (a, b, cv[a][b]), "T4 { c.clone().%d.%d: %d, .. }" % (a, b, cv[b][a])]
    for a in range(3):
        for b in range(3):
            pats += ["T4 { d.%d.%d: %d, .. }" % (a, b, dv[a][b]), "T4 { d.%d.%d: %d, .. }" % (a, b, dv[b][a])]
    for a in range(2):
        for b in range(2):
            for c_ in range(2):
                pats += ["T4 { e.%d.%d.%d: %d, .. }" % (a, b, c_, ev[a][b][c_]), "T4 { e.%d.%d.%d: %d, .. }" % (a, b, c_, ev[c_][b][a])]
    for pt in pats:
        c = t3.Case()
        c.id = k
        k += 1
        c.forms = {"tuple-index-chain": 1}
        c.perturbed = True
        c.meanings = meanings
        t3.finish_case(c, decl, "T4", val, sx, pt)
        cases.append(c)
    # the same through an indexed element of a root tuple
    for (pt, ok) in (("(0.0.1: 22, _)", True), ("(0.1.0: 22, _)", False), ("(0.1.0: 33, 1.0: 5)", True), ("(_, 1.1: 6)", True)):
        c = t3.Case()
        c.id = k
        k += 1
        c.forms = {"tuple-index-chain": 1}
        c.perturbed = True
        c.meanings = meanings.replace("(meanings ", "(meanings (v %s (int 5)) (v %s (int 6)) " % (tgen.hexs("5"), tgen.hexs("6")), 1)
        t3.finish_case(c, "", "(((i32, i32), (i32, i32)), (i32, i32))", "(((11, 22), (33, 44)), (5, 6))", "(tuple %s (tuple (int 5) (int 6)))" % tup(cv), pt)
        cases.append(c)
    return cases


def regex_feature_cases(rng, _n):
    """Regex literals and Like texts that need more than ASCII: case-insensitive flags, Unicode classes and scripts, word boundaries,
    verbose mode, non-ASCII literals - the regex engine the crate links must have the tables the default feature set has."""
    import tgen
    cases = []
    k = 0
    progs = [(r"(?i)^HELLO$", "hello", True), (r"(?i)^straße$", "STRASSE", False), (r"^\p{Lu}\p{Ll}+$", "Élan", True), (r"^\p{Greek}+$", "αβγ", True), (r"^\p{Greek}+$", "abc", False),
             (r"^\p{Alphabetic}+$", "日本語", True), (r"\bwörld\b", "hello wörld!", True), (r"^\w+$", "naïve", True), (r"^\d+$", "٣٤", True), (r"(?x) ^ a \s b $", "a b", True),
             (r"^[[:alpha:]]+$", "abc", True), (r"^\p{Emoji}$", "😀", True), (r"^.$", "é", True), (r"(?s)^a.b$", "a\nb", True), (r"^\P{L}+$", "123", True), (r"(?i)ß", "ẞ", True), (r"^\p{Script=Cyrillic}+$", "жук", True),
             (r"^[^\p{Cc}]+$", "tab\there", False), (r"(?u:\w)(?-u:\w)", "éa", True), (r"^\X$", "e", None)]
    for pat, val, want in progs:
        if want is None:
            continue       # (not supported by the regex crate at all: left out)
        for form in ("lit", "like"):
            c = t3.Case()
            c.id = k
            k += 1
            c.forms = {"regex-features": 1}
            c.perturbed = True
            rs = 'r"%s"' % pat
            if form == "lit":
                pt = "RX { s: =~ %s }" % rs
                c.meanings = "(meanings (p %s (const %s)))" % (tgen.hexs(pat), "true" if want else "false")
            else:
                pt = "RX { s: =~ String::from(%s) }" % rs
                c.meanings = "(meanings (p %s (const %s)))" % (tgen.hexs(tgen.squash("String::from(%s)" % rs)), "true" if want else "false")
            t3.finish_case(c, "#[derive(Debug)] pub struct RX { pub s: String }", "RX", "RX { s: %s.to_string() }" % tgen.rust_str(val.replace("\\n", "\n").replace("\\t", "\t")),
                           "(adt %s (names %s) (vals (str %s)))" % (tgen.hexs("RX"), tgen.hexs("s"), tgen.hexs(val.replace("\\n", "\n").replace("\\t", "\t"))), pt)
            cases.append(c)
    return cases


def regex_history_cases(rng, _n):
    """A regex literal evaluated again AFTER many other distinct regex literals on the same thread (0, 15, 16, 17, 40 of them), in
    several positions, on a matching and on a non-matching value: the verdict is the regex's own answer whatever was compiled
    before (a cache of compiled regexes with eviction, keyed by text or by slot, is wrong only after enough other patterns)."""
    import tgen
    cases = []
    k = 0
    decl = "#[derive(Debug)] pub struct RX { pub s: String, pub o: Option<String>, pub xs: Vec<String>, pub t: (String, i32) }"
    positions = [("RX { s: =~ %s, .. }", "field"), ("RX { o: Some(=~ %s), .. }", "variant"), ("RX { xs: [=~ %s, ..], .. }", "slice"), ("RX { t: (=~ %s, _), .. }", "tuple"),
                 ("RX { xs: #(=~ %s, ..), .. }", "set"), ("RX { s.clone(): =~ %s, .. }", "method"), ("_ { s: =~ %s, .. }", "wildcard-struct")]
    pat = "^al.ce$"
    for nother in (0, 15, 16, 17, 40):
        prior = 'assert_struct!("alice".to_string(), =~ r"%s"); ' % pat + " ".join('assert_struct!("w%dx".to_string(), =~ r"^w%d.$");' % (i, i) for i in range(nother))
        for templ, pos in positions:
            for val, want in (("alice", True), ("alicia", False)):
                c = t3.Case()
                c.id = k
                k += 1
                c.forms = {"regex-after-history": 1}
                c.perturbed = not want
                c.meanings = "(meanings (p %s (const %s)) (m %s %s))" % (tgen.hexs(pat), "true" if want else "false", tgen.hexs("clone"), tgen.hexs("id"))
                vs = "(str %s)" % tgen.hexs(val)
                t3.finish_case(c, decl, "RX", 'RX { s: "%s".to_string(), o: Some("%s".to_string()), xs: vec!["%s".to_string()], t: ("%s".to_string(), 1) }' % (val, val, val, val),
                               "(adt %s (names %s %s %s %s) (vals %s (adt %s (names) (vals %s)) (seq %s) (tuple %s (int 1))))" % (
                                   tgen.hexs("RX"), tgen.hexs("s"), tgen.hexs("o"), tgen.hexs("xs"), tgen.hexs("t"), vs, tgen.hexs("Some"), vs, vs, vs),
                               templ % ('r"%s"' % pat))
                c.setup = prior
                cases.append(c)
    return cases


def std_collection_cases(rng, _n):
    """Map and set patterns on the standard collections the documentation uses besides BTreeMap / Vec: HashMap, HashSet, VecDeque,
    LinkedList, BinaryHeap, arrays, slices behind a reference, Box / Rc / Arc of them.  The patterns never make a whole hash
    collection's Debug text part of an entry (its order is not fixed)."""
    import tgen
    cases = []
    k = 0
    ints = lambda l: " ".join("(int %d)" % x for x in l)
    strs = lambda l: " ".join("(str %s)" % tgen.hexs(x) for x in l)
    meanings = "(meanings %s %s (r %s (int 1) (int 3) true))" % (" ".join("(v %s (int %d))" % (tgen.hexs(str(x)), x) for x in range(0, 10)),
                                                                " ".join("(v %s (str %s))" % (tgen.hexs('"%s"' % x), tgen.hexs(x)) for x in ("a", "b", "c", "zz")), tgen.hexs("1..=3"))
    sets = [("std::collections::HashSet<i32>", "std::collections::HashSet::from([1, 2, 3])"), ("std::collections::VecDeque<i32>", "std::collections::VecDeque::from([1, 2, 3])"),
            ("std::collections::LinkedList<i32>", "std::collections::LinkedList::from([1, 2, 3])"), ("std::collections::BinaryHeap<i32>", "std::collections::BinaryHeap::from([1, 2, 3])"),
            ("[i32; 3]", "[1, 2, 3]"), ("&'static [i32]", "&[1, 2, 3]"), ("Box<[i32]>", "vec![1, 2, 3].into_boxed_slice()")]
    # (set patterns on Rc<Vec<_>> / Arc<BTreeSet<_>> do not compile - `into_iter` resolves through the pointer to the by-value impl,
    # E0507 - on the tree these checks were written against: a limitation outside the twenty properties, left out here)
    spats = ["#(3, 2, 1)", "#(1, 2)", "#(1, 2, ..)", "#(> 2, > 2, ..)", "#(1..=3, 1..=3, 1..=3)", "#(9, ..)", "#(..)", "#(_, _, _)", "#(1, 2, 3, 4)"]
    for ty, val in sets:
        for pt in spats:
            c = t3.Case()
            c.id = k
            k += 1
            c.forms = {"std-collection": 1}
            c.perturbed = True
            c.meanings = meanings
            t3.finish_case(c, "", ty, val, "(setv %s)" % ints([1, 2, 3]), pt)
            cases.append(c)
    maps = [("std::collections::HashMap<String, i32>", 'std::collections::HashMap::from([("a".to_string(), 1), ("b".to_string(), 2)])'),
            ("std::collections::BTreeMap<String, i32>", 'std::collections::BTreeMap::from([("a".to_string(), 1), ("b".to_string(), 2)])'),
            ("Box<std::collections::HashMap<String, i32>>", 'Box::new(std::collections::HashMap::from([("a".to_string(), 1), ("b".to_string(), 2)]))'),
            ("std::rc::Rc<std::collections::HashMap<String, i32>>", 'std::rc::Rc::new(std::collections::HashMap::from([("a".to_string(), 1), ("b".to_string(), 2)]))')]
    mpats = ['#{ "a": 1, "b": 2 }', '#{ "b": 2, "a": 1 }', '#{ "a": 1, .. }', '#{ "a": 2, .. }', '#{ "a": 1 }', '#{ "c": 1, .. }', '#{ "a": > 0, "b": > 5 }', '#{ .. }', '#{ "a": _, "zz": _, .. }', '#{ "a": 1, "b": 2, "c": 3 }']
    for ty, val in maps:
        for pt in mpats:
            c = t3.Case()
            c.id = k
            k += 1
            c.forms = {"std-collection": 1}
            c.perturbed = True
            c.meanings = meanings
            t3.finish_case(c, "", ty, val, "(map (keys %s) (vals %s))" % (strs(["a", "b"]), ints([1, 2])), pt)
            cases.append(c)
    # through a struct field and a method (`cache.len(): 2`), as in the documentation
    decl = "#[derive(Debug)] pub struct DataH { pub cache: std::collections::HashMap<String, i32>, pub tags: std::collections::HashSet<i32>, pub q: std::collections::VecDeque<i32> }"
    val = 'DataH { cache: std::collections::HashMap::from([("a".to_string(), 1), ("b".to_string(), 2)]), tags: std::collections::HashSet::from([1, 2, 3]), q: std::collections::VecDeque::from([1, 2, 3]) }'
    sx = "(adt %s (names %s %s %s) (vals (map (keys %s) (vals %s)) (setv %s) (setv %s)))" % (tgen.hexs("DataH"), tgen.hexs("cache"), tgen.hexs("tags"), tgen.hexs("q"), strs(["a", "b"]), ints([1, 2]), ints([1, 2, 3]), ints([1, 2, 3]))
    for pt in ('DataH { cache: #{ "a": 1, .. }, tags: #(3, ..), q: #(1, 2, 3) }', 'DataH { cache.len(): 2, tags.len(): 3, q.len(): > 2 }', 'DataH { cache: #{ "a": 2, .. }, tags: #(9, ..), .. }',
               'DataH { cache.len(): 3, .. }', '_ { cache: #{ "b": 2, "a": 1 }, tags: #(1, 2, 3), .. }', 'DataH { cache: #{ "zz": 1, .. }, q: #(1, 2), .. }'):
        c = t3.Case()
        c.id = k
        k += 1
        c.forms = {"std-collection": 1}
        c.perturbed = True
        c.meanings = meanings
        t3.finish_case(c, decl, "DataH", val, sx, pt)
        cases.append(c)
    return cases


def repeated_name_chain_cases(rng, _n):
    """Field paths that name the same field (or index) again further down: `inner.inner.id`, `0.0`, `next.next.value` - every step counts."""
    import tgen
    cases = []
    k = 0
    decl = ("#[derive(Debug, Clone)] pub struct K3 { pub id: i32, pub inner: i32 }\n#[derive(Debug, Clone)] pub struct M3 { pub inner: K3, pub id: i32 }\n"
            "#[derive(Debug, Clone)] pub struct N3 { pub inner: M3, pub id: i32, pub t: ((i32, i32), i32) }\nimpl M3 { pub fn inner(&self) -> &K3 { &self.inner } }")
    adt = lambda ctor, names, vals: "(adt %s (names %s) (vals %s))" % (tgen.hexs(ctor), " ".join(tgen.hexs(n) for n in names), " ".join(vals))
    val = "N3 { inner: M3 { inner: K3 { id: 3, inner: 4 }, id: 2 }, id: 1, t: ((7, 8), 9) }"
    sx = adt("N3", ["inner", "id", "t"], [adt("M3", ["inner", "id"], [adt("K3", ["id", "inner"], ["(int 3)", "(int 4)"]), "(int 2)"]), "(int 1)", "(tuple (tuple (int 7) (int 8)) (int 9))"])
    meanings = "(meanings %s (m %s %s))" % (" ".join("(v %s (int %d))" % (tgen.hexs(str(x)), x) for x in range(0, 10)), tgen.hexs("inner"), tgen.hexs("field:inner"))
    for pt in ("N3 { inner.inner.id: 3, .. }", "N3 { inner.inner.id: 2, .. }", "N3 { inner.id: 2, inner.inner.id: 3, inner.inner.inner: 4, .. }", "N3 { inner.inner.inner: 4, .. }", "N3 { inner.inner.inner: 3, .. }",
               "_ { inner.inner.id: 3, id: 1, .. }", "_ { inner.inner.id: 2, .. }", "N3 { inner.inner().id: 3, .. }", "N3 { inner.inner().inner: 2, .. }", "N3 { t.0.0: 7, t.0.1: 8, .. }", "N3 { t.0.0: 8, .. }",
               "N3 { id: 1, inner.id: 1, .. }", "N3 { inner.inner.id: > 2, inner.id: < 3, id: 1, .. }"):
        c = t3.Case()
        c.id = k
        k += 1
        c.forms = {"repeated-name-chain": 1}
        c.perturbed = True
        c.meanings = meanings
        t3.finish_case(c, decl, "N3", val, sx, pt)
        cases.append(c)
    for (pt, v_, sx_) in (("(0.0: 7, _)", "((7, 8), 9)", "(tuple (tuple (int 7) (int 8)) (int 9))"), ("(0.0: 8, _)", "((7, 8), 9)", "(tuple (tuple (int 7) (int 8)) (int 9))"), ("(_, 1.1: 6)", "(0, (5, 6))", "(tuple (int 0) (tuple (int 5) (int 6)))")):
        c = t3.Case()
        c.id = k
        k += 1
        c.forms = {"repeated-name-chain": 1}
        c.perturbed = True
        c.meanings = meanings
        t3.finish_case(c, "", "((i32, i32), i32)" if v_.startswith("((") else "(i32, (i32, i32))", v_, sx_, pt)
        cases.append(c)
    return cases


def method_argument_cases(rng, _n):
    """Method calls with several arguments in field paths: the arguments reach the call in the order written."""
    import tgen
    cases = []
    k = 0
    decl = ("#[derive(Debug)] pub struct Acc { pub bal: i32, pub title: String }\nimpl Acc { pub fn after(&self, add: i32, fee: i32) -> i32 { self.bal + add - fee } pub fn pick(&self, a: i32, b: i32, c: i32) -> i32 { a * 100 + b * 10 + c } "
            "pub fn cut(&self, from: usize, to: usize) -> &str { &self.title[from..to] } pub fn one(&self, a: i32) -> i32 { a + 1 } }\n#[derive(Debug)] pub struct Hold { pub acc: Acc, pub pair: (Acc, i32) }")
    val = 'Hold { acc: Acc { bal: 1000, title: "hello world".to_string() }, pair: (Acc { bal: 10, title: "ab".to_string() }, 0) }'
    acc = lambda bal, t: "(adt %s (names %s %s) (vals (int %d) (str %s)))" % (tgen.hexs("Acc"), tgen.hexs("bal"), tgen.hexs("title"), bal, tgen.hexs(t))
    sx = "(adt %s (names %s %s) (vals %s (tuple %s (int 0))))" % (tgen.hexs("Hold"), tgen.hexs("acc"), tgen.hexs("pair"), acc(1000, "hello world"), acc(10, "ab"))
    # (pattern, method name -> what the call yields as written)
    progs = [("Hold { acc.after(100, 5): 1095, .. }", {"after": "const:1095"}), ("Hold { acc.after(5, 100): 905, .. }", {"after": "const:905"}), ("Hold { acc.after(100, 5): 905, .. }", {"after": "const:1095"}),
             ("Hold { acc.pick(1, 2, 3): 123, .. }", {"pick": "const:123"}), ("Hold { acc.pick(3, 2, 1): > 300, .. }", {"pick": "const:321"}), ("_ { acc.pick(1, 2, 3): 123, .. }", {"pick": "const:123"}),
             ('Hold { acc.cut(0, 5): "hello", .. }', {"cut": "conststr:" + tgen.hexs("hello")}), ('Hold { acc.cut(6, 11): == "world", .. }', {"cut": "conststr:" + tgen.hexs("world")}),
             ("Hold { acc.one(4): 5, acc.after(1, 2): 999, .. }", {"one": "const:5", "after": "const:999"}), ("Hold { pair: (0.after(5, 1): 14, _), .. }", {"after": "const:14"}),
             ("Hold { pair.0.after(1, 5): 6, .. }", {"after": "const:6"}), ("Hold { acc.after(100, 5): 1095, acc.pick(9, 0, 9): 909, .. }", {"after": "const:1095", "pick": "const:909"})]
    lits = {"1095": 1095, "905": 905, "123": 123, "300": 300, "5": 5, "999": 999, "14": 14, "6": 6, "909": 909}
    for pt, meth in progs:
        c = t3.Case()
        c.id = k
        k += 1
        c.forms = {"method-arguments": 1}
        c.perturbed = True
        c.meanings = "(meanings %s (v %s (str %s)) (v %s (str %s)) %s)" % (" ".join("(v %s (int %d))" % (tgen.hexs(t), n) for t, n in lits.items()), tgen.hexs('"hello"'), tgen.hexs("hello"),
                                                                         tgen.hexs('"world"'), tgen.hexs("world"), " ".join("(m %s %s)" % (tgen.hexs(n), tgen.hexs(b)) for n, b in meth.items()))
        t3.finish_case(c, decl, "Hold", val, sx, pt)
        cases.append(c)
    return cases


def set_after_failure_cases(rng, _n):
    """A set pattern evaluated when the report already holds entries (a failing sibling before it), and before further failing
    siblings: every independent mismatch is reported, whatever has been reported already."""
    import tgen
    cases = []
    k = 0
    decl = "#[derive(Debug)] pub struct Q { pub a: i32, pub xs: Vec<i32>, pub b: i32, pub o: Option<Vec<i32>> }"
    adt = lambda ctor, names, vals: "(adt %s (names %s) (vals %s))" % (tgen.hexs(ctor), " ".join(tgen.hexs(n) for n in names), " ".join(vals))
    meanings = "(meanings %s)" % " ".join("(v %s (int %d))" % (tgen.hexs(str(x)), x) for x in (0, 1, 2, 3, 7, 8, 9))
    pats = ["Q { a: 1, xs: #(9, 8), b: 2, .. }", "Q { xs: #(9, 8), a: 1, b: 2, .. }", "Q { a: 1, b: 2, xs: #(1, 2, ..), .. }", "Q { a: 1, o: Some(#(9, 8)), b: 2, .. }",
            "Q { a: 1, xs: #(1, 2, 3), o: Some(#(> 7, > 7)), b: 2, .. }", "_ { a: 1, xs: #(9), b: 2, .. }", "Q { a: 1, xs: #(> 0, > 0, > 8), b: 2, .. }"]
    for (a, xs, b, o) in ((1, [8, 9], 2, [8, 9]), (0, [8, 9], 2, [8, 9]), (0, [1, 2], 0, [1, 2]), (1, [1, 2], 2, [1, 2]), (0, [1, 2, 3], 0, [8, 9]), (0, [], 0, []), (0, [9, 9], 2, [9, 9])):
        val = "Q { a: %d, xs: vec!%s, b: %d, o: Some(vec!%s) }" % (a, xs, b, o)
        seq = lambda l: "(seq %s)" % " ".join("(int %d)" % x for x in l)
        sx = adt("Q", ["a", "xs", "b", "o"], ["(int %d)" % a, seq(xs), "(int %d)" % b, adt("Some", [], [seq(o)])])
        for pt in pats:
            c = t3.Case()
            c.id = k
            k += 1
            c.forms = {"set-after-failure": 1}
            c.perturbed = True
            c.meanings = meanings
            t3.finish_case(c, decl, "Q", val, sx, pt)
            cases.append(c)
    return cases


def invocation_context_cases(rng, _n):
    """The same assertion in different syntactic surroundings: after other assertions in the same block, in expression position,
    as a match arm, next to caller locals named like the expansion's helpers, with another invocation inside a closure pattern.
    The surroundings must not change verdict or report."""
    import tgen
    cases = []
    k = 0
    decl = "#[derive(Debug)] pub struct P { pub a: i32, pub s: String, pub o: Option<i32> }"
    adt = lambda ctor, names, vals: "(adt %s (names %s) (vals %s))" % (tgen.hexs(ctor), " ".join(tgen.hexs(n) for n in names), " ".join(vals))
    contexts = [
        ("plain", "", ""),
        ("after-other-assertions", "assert_struct!(&(1, 2), (1, _)); assert_struct!(&Some(3), Some(> 2)); assert_struct!(&vec![1, 2], #(2, 1)); ", ""),
        ("expression-position", "let _unit: () = ", ""),
        ("match-arm", "match 0u8 { _ => ", " }"),
        ("tuple-of-two", "let _t = (assert_struct!(&1, 1), ", ")"),
        ("caller-locals-named-like-helpers", "let __report = 5i32; let __assert_struct_value = 7i32; let __assert_struct_result = 9i32; ", "; let _z: i32 = __report + __assert_struct_value + __assert_struct_result"),
        ("inside-a-loop", "for _i in 0..2 { ", " }"),
        ("inside-a-nested-closure", "(|| { ", " })()"),
        ("in-an-if-condition-block", "if { ", "; true } { }"),
    ]
    pats = ['P { a: 5, s: "abc", o: Some(3) }', 'P { a: > 4, s: =~ "a.c", .. }', 'P { a: |x| { assert_struct!(*x, > 0); true }, .. }', '_ { o: Some(1..=5), s.len(): 3, .. }']
    vals = [(5, "abc", 3), (4, "abd", 9)]
    meanings = "(meanings (v %s (int 5)) (v %s (str %s)) (v %s (int 3)) (v %s (int 4)) (p %s (cmp eq (str %s))) (r %s (int 1) (int 5) true) (p %s (cmp gt (int 0))))" % (
        tgen.hexs("5"), tgen.hexs('"abc"'), tgen.hexs("abc"), tgen.hexs("3"), tgen.hexs("4"), tgen.hexs("a.c"), tgen.hexs("abc"), tgen.hexs("1..=5"),
        tgen.hexs(tgen.squash("|x| { assert_struct!(*x, > 0); true }")))
    for (a, s_, o) in vals:
        val = 'P { a: %d, s: "%s".to_string(), o: Some(%d) }' % (a, s_, o)
        sx = adt("P", ["a", "s", "o"], ["(int %d)" % a, "(str %s)" % tgen.hexs(s_), adt("Some", [], ["(int %d)" % o])])
        for pt in pats:
            for (name, wo, wc) in contexts:
                c = t3.Case()
                c.id = k
                k += 1
                c.forms = {"invocation-context": 1}
                c.perturbed = a != 5
                c.meanings = meanings
                t3.finish_case(c, decl, "P", val, sx, pt)
                c.wrap_open, c.wrap_close = wo, wc
                c.context = name
                cases.append(c)
    return cases


def eq_literal_text_cases(rng, _n):
    """`==` / `!=` with expected expressions whose printed text contains blanks and `::` inside string
    literals: the label must show the expression as written."""
    import tgen
    cases = []
    k = 0
    progs = [
        ('== "net :: timeout"', "net::timeout", [('"net :: timeout"', "net :: timeout")]),
        ('== "a  b :: c"', "a b::c", [('"a  b :: c"', "a  b :: c")]),
        ('!= "x :: y"', "x :: y", [('"x :: y"', "x :: y")]),
        ('== ["db", "pool"].join(" :: ")', "db::pool", [('["db", "pool"].join(" :: ")', "db :: pool")]),
        ('== "Status :: Active"', "Status::Active", [('"Status :: Active"', "Status :: Active")]),
        ('== String::from("p :: q")', "p::q", [('String::from("p :: q")', "p :: q")]),
    ]
    for (pat, val, ms) in progs:
        for wrap in ("%s", "W { s: %s }", "Some(%s)"):
            c = t3.Case()
            c.id = k
            k += 1
            c.forms = {"eq-literal-text": 1}
            c.perturbed = True
            c.meanings = "(meanings %s)" % " ".join("(v %s (str %s))" % (tgen.hexs(tgen.squash(t)), tgen.hexs(v)) for t, v in ms)
            sv = "(str %s)" % tgen.hexs(val)
            if wrap == "%s":
                t3.finish_case(c, "", "String", '"%s".to_string()' % val, sv, pat)
            elif wrap.startswith("W"):
                t3.finish_case(c, "#[derive(Debug)] pub struct W { pub s: String }", "W", 'W { s: "%s".to_string() }' % val,
                               "(adt %s (names %s) (vals %s))" % (tgen.hexs("W"), tgen.hexs("s"), sv), wrap % pat)
            else:
                t3.finish_case(c, "", "Option<String>", 'Some("%s".to_string())' % val, "(adt %s (names) (vals %s))" % (tgen.hexs("Some"), sv), wrap % pat)
            cases.append(c)
    return cases


def range_boundary_cases(rng, _n):
    """Integer and float ranges of every shape against values at and next to every bound (next to = 1 for integers,
    0.5 for floats): the verdict is Rust's own range membership."""
    import tgen
    cases = []
    k = 0

    def add(ty, lit, sx, lo, hi, incl, vals):
        nonlocal k
        txt = ("" if lo is None else lit(lo)) + ("..=" if incl else "..") + ("" if hi is None else lit(hi))
        for x in vals:
            for wrap in ("%s", "Some(%s)"):
                c = t3.Case()
                c.id = k
                k += 1
                c.forms = {"range-boundary": 1}
                c.perturbed = True
                c.meanings = "(meanings (r %s %s %s %s))" % (tgen.hexs(tgen.squash(txt)), "none" if lo is None else sx(lo), "none" if hi is None else sx(hi), "true" if incl else "false")
                vt = lit(x) + ("" if ty == "f64" else ty)
                if wrap == "%s":
                    t3.finish_case(c, "", ty, vt, sx(x), txt)
                else:
                    t3.finish_case(c, "", "Option<%s>" % ty, "Some(%s)" % vt, "(adt %s (names) (vals %s))" % (tgen.hexs("Some"), sx(x)), wrap % txt)
                cases.append(c)

    ilit = lambda v: str(v)
    isx = lambda v: "(int %d)" % v
    flit = lambda v: repr(float(v))
    fsx = lambda v: "(dec %d)" % round(float(v) * 100)      # the model's decimals are integers in hundredths
    for (lo, hi) in ((3, 9), (0, 100)):
        vals = sorted({lo - 1, lo, lo + 1, hi - 1, hi, hi + 1})
        for (a, b, incl) in ((lo, hi, False), (lo, hi, True), (None, hi, False), (None, hi, True), (lo, None, False)):
            add("i32", ilit, isx, a, b, incl, vals)
    for (lo, hi) in ((0.0, 100.0), (1.5, 2.5)):
        vals = sorted({lo - 0.5, lo, lo + 0.5, hi - 0.5, hi - 0.25, hi, hi + 0.5})
        for (a, b, incl) in ((lo, hi, False), (lo, hi, True), (None, hi, False), (lo, None, False)):
            add("f64", flit, fsx, a, b, incl, vals)
    add("u8", ilit, isx, 0, 255, True, [0, 254, 255])
    return cases


def light_composite_cases(rng, _n):
    """A composite that generates little or no assertion code (`#()`, `#(..)`, `[]`, `[..]`, `#{..}`, `#{}`, `(_, _)`, `_`) written BEFORE
    and AFTER failing siblings in the same invocation: verdict, entries and the got-text of every other entry are what they are
    without it (seed C05-11: generator state set for an empty set pattern and never restored blanked every later got-text)."""
    import tgen
    cases = []
    k = 0
    decl = "#[derive(Debug)] pub struct S { pub a: Vec<i32>, pub m: BTreeMap<String, i32>, pub o: Option<i32>, pub t: (i32, i32), pub b: i32, pub c: String }"
    adt = lambda ctor, names, vals: "(adt %s (names %s) (vals %s))" % (tgen.hexs(ctor), " ".join(tgen.hexs(n) for n in names), " ".join(vals))
    lights = ["a: #()", "a: #(..)", "a: []", "a: [..]", "a: #(_, ..)", "m: #{..}", "m: #{}", "t: (_, _)", "o: _", "a: #(1, 2)", "a.len(): 0", "o: Some(_)"]
    meanings = "(meanings %s)" % " ".join("(v %s (int %d))" % (tgen.hexs(str(x)), x) for x in (0, 1, 2, 5, 6))
    for (a, m, o) in (([], [], None), ([1, 2], [("k", 1)], 3)):
        val = "S { a: vec![%s], m: BTreeMap::from([%s]), o: %s, t: (1, 2), b: 5, c: \"x\".to_string() }" % (
            ", ".join(str(x) for x in a), ", ".join('("%s".to_string(), %d)' % kv for kv in m), "None" if o is None else "Some(%d)" % o)
        sx = adt("S", ["a", "m", "o", "t", "b", "c"],
                 ["(seq %s)" % " ".join("(int %d)" % x for x in a),
                  "(map (keys %s) (vals %s))" % (" ".join("(str %s)" % tgen.hexs(x) for x, _ in m), " ".join("(int %d)" % y for _, y in m)),
                  adt("None", [], []) if o is None else adt("Some", [], ["(int %d)" % o]),
                  "(tuple (int 1) (int 2))", "(int 5)", "(str %s)" % tgen.hexs("x")])
        for light in lights:
            for (B, C) in ((5, "x"), (6, "x"), (5, "y"), (6, "y")):
                for order in (0, 1):
                    sib = 'b: %d, c: "%s"' % (B, C)
                    pat = "S { %s, %s, .. }" % ((light, sib) if order == 0 else (sib, light))
                    c = t3.Case()
                    c.id = k
                    k += 1
                    c.forms = {"light-composite-sibling": 1}
                    c.perturbed = (B, C) != (5, "x")
                    c.meanings = meanings
                    t3.finish_case(c, decl, "S", val, sx, pat)
                    cases.append(c)
    return cases


def long_value_cases(rng, _n):
    """Elements whose Debug text is long and non-ASCII (hundreds to thousands of bytes of 2- and 3-byte characters, shifted by 0-2 ASCII
    bytes so that every fixed byte offset falls inside a character of one of them), probed and rejected by a set pattern that has a
    matching assignment, and failing a leaf: the assertion passes / reports the whole Debug text (seeds C02-12, C03-12: the recorded
    text clipped with String::truncate at a byte count - a panic inside push, also on the passing path of a set search)."""
    import tgen
    cases = []
    k = 0
    longs = [("", "é", 700), ("a", "é", 700), ("", "日", 500), ("a", "日", 500), ("ab", "日", 500), ("", "é", 120), ("a", "é", 120), ("", "😀", 300), ("abc", "😀", 300)]
    pats = [('#("short", _)', True), ('#(_, "short")', True), ('#("short", ..)', True), ('#("short", "other")', False), ('["short", "short"]', False), ('[_, "short"]', True)]
    for (pre, ch, n) in longs:
        L = pre + ch * n
        val = 'vec![format!("{}{}", "%s", "%s".repeat(%d)), "short".to_string()]' % (pre, ch, n)
        sx = "(seq (str %s) (str %s))" % (tgen.hexs(L), tgen.hexs("short"))
        for pat, _matches in pats:
            c = t3.Case()
            c.id = k
            k += 1
            c.forms = {"long-non-ascii-values": 1}
            c.perturbed = not _matches
            c.meanings = "(meanings)"
            t3.finish_case(c, "", "Vec<String>", val, sx, pat)
            cases.append(c)
    return cases


def set_palette_cases(rng, n):
    from checks import c10
    return c10.macro_cases(rng, n)



UNWIND_PRELUDE = """
pub struct OnDrop<F: FnOnce()>(pub Option<F>);
impl<F: FnOnce()> Drop for OnDrop<F> { fn drop(&mut self) { if let Some(f) = self.0.take() { f() } } }
"""


def unwinding_part(ck, aspect):
    """The assertion evaluated from a destructor WHILE THE THREAD IS UNWINDING from an earlier panic (fixture teardown after a
    failed test body): `returns normally` must still mean `the value satisfies the pattern` (C01), and a value that satisfies the
    pattern must still return normally (C02). A failing assertion there is a second panic - the process aborts - so every case
    runs in a child process of its own (the program re-executes itself) and reports RETURNED / DIED."""
    import e2e
    n = 24 if ck.tier == "quick" else 120
    base = t3.run_corpus(ck, "unwinding-base", n, per_bin=12, gen_stream="mixed")
    t3.compare(ck, base, "unwinding-base")
    live = [c for c in base if c.got[0] in ("pass", "fail") and c.expect[0] == "ok"]
    if not live:
        return
    src = [t3.HEADER, UNWIND_PRELUDE]
    for c in live:
        src.append("mod ucase_%d {\nuse super::*;\n%s\npub fn run() {\nlet v: %s = %s;\nlet _g = OnDrop(Some(|| {\nassert_struct!(\n %s\n);\nprintln!(\"RETURNED\");\n}));\npanic!(\"the test body failed first\");\n}\n}\n" % (
            c.id, c.decls_text, c.type_text, c.value_text, c.text))
    src.append("fn main() {\n    let a: Vec<String> = std::env::args().collect();\n    if a.len() > 1 {\n        match a[1].as_str() {\n%s\n            _ => {}\n        }\n        return;\n    }\n" % "\n".join(
        '            "%d" => ucase_%d::run(),' % (c.id, c.id) for c in live))
    src.append("    for n in [%s] {\n        let o = std::process::Command::new(std::env::current_exe().unwrap()).arg(n.to_string()).output().unwrap();\n"
               "        println!(\"UCASE {} {}\", n, if String::from_utf8_lossy(&o.stdout).contains(\"RETURNED\") { \"RETURNED\" } else { \"DIED\" });\n    }\n}\n" % ", ".join(str(c.id) for c in live))
    proj = e2e.Project("unwinding")
    got = {}
    try:
        proj.add_bin("unwind", "".join(src))
        res = proj.build()
        if not res["unwind"]["ok"]:
            ck.notes.append("unwinding context: the program did not compile (%s): part skipped" % (res["unwind"]["diags"][0]["message"] if res["unwind"]["diags"] else "?"))
            return
        rc, out, err = proj.run("unwind")
        for line in out.split("\n"):
            f = line.split(" ")
            if f[0] == "UCASE":
                got[int(f[1])] = f[2]
    finally:
        proj.cleanup()
    bad = 0
    for c in live:
        g = got.get(c.id)
        want = "RETURNED" if not c.expect[1] else "DIED"
        if g is None or g == want:
            continue
        bad += 1
        desc = dict(t3.describe(c), context="the assertion runs in a destructor while the thread unwinds from an earlier panic", outcome=g, expected_outcome=want)
        if aspect == "C01" and g == "RETURNED":
            ck.report("passes-but-does-not-match:unwinding", "the assertion returned normally although the value does not satisfy the pattern (evaluated from a destructor during unwinding)", desc)
        elif aspect == "C02" and g == "DIED":
            ck.report("fails-but-matches:unwinding", "the assertion failed although the value satisfies the pattern (evaluated from a destructor during unwinding)", desc)
    ck.corr_record("T3 unwinding context (each generated assertion evaluated from a destructor while its thread unwinds from an earlier panic, one child process per case: returned normally / died vs the specification's verdict)",
                   len(got), len(got), bad, dict(cases=len(live), returned=sum(1 for v in got.values() if v == "RETURNED"), died=sum(1 for v in got.values() if v == "DIED")),
                   samples=[dict(invocation="assert_struct!(%s)" % c.text[:160], value=c.value_text[:120], outcome=got.get(c.id)) for c in live[:2]],
                   rule="the mixed stream of the typed generator (40% unperturbed values)")


def check(ck, aspect, theorems, t2_parts=("body", "status")):
    ck.prove(theorems)
    ck.build_harness("inproc")
    res = t2.run(ck)
    t2_mm = t2.record(ck, res, t2_parts, "assertion code")
    found_input = False
    forms = {}
    for stream, cases in streams(ck).items():
        stats, mism = t3.compare(ck, cases, stream)
        for c in cases:
            for k, v in c.forms.items():
                forms[k] = forms.get(k, 0) + v
        relevant = []
        for m in mism:
            c = m["case"]
            kind = m["kind"]
            ek, ee = c.expect
            gk = c.got[0]
            if aspect == "C01" and kind == "verdict" and gk == "pass":
                relevant.append(("passes-but-does-not-match", "the assertion returned normally although the value does not satisfy the pattern", m))
            elif aspect == "C02" and kind == "verdict" and gk == "fail":
                relevant.append(("fails-but-matches", "the assertion failed although the value satisfies the pattern", m))
            elif aspect == "C03" and kind in ("entries", "verdict"):
                # a wrong verdict is a wrong set of entries too: a failing leaf without an entry, or an entry for a sub-pattern that matched
                relevant.append(("wrong-entries", "the report's entries are not the failure frontier (one entry per failing leaf / failed shape, nothing else)", m))
            elif aspect == "C05" and kind == "actual-text":
                relevant.append(("wrong-actual-text", "an entry's 'got' text is not the Debug form of the sub-value at that sub-pattern's path", m))
            elif aspect == "C19" and kind == "label":
                relevant.append(("wrong-label", "an entry's statement about the expected side does not agree with the pattern as written", m))
            elif kind in ("crashed", "header") and aspect in ("C03",):
                relevant.append(("no-report", "the failing assertion did not produce a report: " + kind, m))
        for key, what, m in relevant:
            found_input = True
            c = m["case"]
            ck.report("%s:%s" % (key, "+".join(sorted(c.forms))[:60]), what, t3.describe(c))
        nontriv = len({c.text + c.value_text for c in cases if len(c.forms) >= 2 or c.perturbed})
        ck.corr_record("T3 %s stream (generated programs compiled against the real macro; verdict, entries (location + label) and actual texts vs the Lean specification on the same AST and value)" % stream,
                       len(cases), nontriv, len(mism), dict(stats),
                       samples=[dict(invocation="assert_struct!(%s)" % c.text[:160], value=c.value_text[:120], spec=str(c.expect)[:160], impl=c.got[0]) for c in cases[:2]],
                       rule="type-directed seeded generation: random type (depth<=3) -> value -> pattern derived from the value with a random form per node; %s; distinct = distinct (invocation, value); non-trivial = at least two forms in the pattern or a perturbed value" % (
                           {"matching": "value unperturbed (must pass)", "nearmiss": "1..n atoms / variants / lengths of the value perturbed", "mixed": "40% unperturbed", "mixed-edition-2018": "40% unperturbed; the program is an edition-2018 crate", "mixed-release-profile": "40% unperturbed; release profile without debug assertions and overflow checks"}[stream]))
    if aspect in ("C01", "C03"):
        bp = t3.run_corpus(ck, "binding-path", 0, per_bin=4, positions=binding_path_cases)
        stats, mism = t3.compare(ck, bp, "binding-path")
        for m in mism:
            c = m["case"]
            if m["kind"] == "verdict" and c.got[0] == "pass":
                ck.report("binding-path", "a value pattern that is a path (an identifier or a zero-argument call) binds instead of comparing: the assertion cannot fail", t3.describe(c))
        ck.corr_record("T3 path-valued patterns (identifier, zero-argument call, constant as a field's value pattern)", len(bp), len(bp), len(mism), dict(stats),
                       samples=[dict(invocation="assert_struct!(%s)" % c.text, setup=getattr(c, "setup", ""), impl=c.got[0], spec=str(c.expect)[:120]) for c in bp[:2]], rule="4 fixed programs")
    for (name, maker, what) in (("range-in-slice", range_in_slice_cases, "range-shaped slice elements next to the rest marker"),
                                ("set-history", set_history_cases, "matching set assertions after earlier set assertions on the same thread"),
                                ("map-wildcard-value", map_wild_cases, "map entries whose value pattern is `_`: the key is still required"),
                                ("wildcard-struct-sibling", wildcard_shadow_cases, "a wildcard struct next to a sibling field of the same name"),
                                ("guard-temporaries", guard_temp_cases, "field paths through guard-returning methods: each assertion releases its borrow before the next"),
                                ("tuple-index-chains", tuple_index_chain_cases, "chains of tuple indices in field paths (`c.0.1` is one float literal token)"),
                                ("regex-features", regex_feature_cases, "regex literals and Like texts that need Unicode tables, flags, non-ASCII text"),
                                ("std-collections", std_collection_cases, "map and set patterns on HashMap / HashSet / VecDeque / LinkedList / BinaryHeap / arrays / slices / Box, Rc, Arc of collections"),
                                ("repeated-name-chains", repeated_name_chain_cases, "field paths that name the root field (or index) again further down"),
                                ("method-arguments", method_argument_cases, "method calls with several arguments in field paths: arguments in the order written"),
                                ("set-after-failure", set_after_failure_cases, "set patterns evaluated when the report already holds entries, and before further failing siblings"),
                                ("invocation-context", invocation_context_cases, "the same assertion after other assertions, in expression position, as a match arm, in loops / closures, next to caller locals named like helpers"),
                                ("eq-literal-text", eq_literal_text_cases, "expected expressions with blanks and `::` inside string literals"),
                                ("range-boundary", range_boundary_cases, "integer and float ranges against values at and next to every bound"),
                                ("light-composite-siblings", light_composite_cases, "composites that generate little or no code (`#()`, `#(..)`, `[]`, `#{..}`, `(_, _)`, `_`) before and after failing siblings"),
                                ("long-non-ascii-values", long_value_cases, "elements with long non-ASCII Debug texts rejected by set probes on the passing path, and failing a leaf"),
                                ("regex-after-history", regex_history_cases, "a regex literal evaluated again after 0 / 15 / 16 / 17 / 40 other distinct regex literals on the same thread, in 7 positions"),
                                ("repeated-leaf-text", repeated_leaf_text_cases, "sibling sub-patterns with textually identical leaves in maps / tuples / slices: the first, a later one or both fail"),
                                ("set-size-boundary", set_size_boundary_cases, "set patterns on collections of 31-33, 63-65, 127-129, 255-257 elements: needed matches at the first, last and word-boundary positions"),
                                ("c10-macro", set_palette_cases, "set patterns from a palette of element patterns over every listed order of small collections")):
        fam = t3.run_corpus(ck, name, 0, per_bin=40, positions=maker)
        stats, mism = t3.compare(ck, fam, name)
        for m in mism:
            c = m["case"]
            kind = m["kind"]
            gk = c.got[0]
            key = None
            if aspect == "C01" and kind == "verdict" and gk == "pass":
                key, text = "passes-but-does-not-match", "the assertion returned normally although the value does not satisfy the pattern"
            elif aspect == "C02" and (kind == "verdict" and gk == "fail" or kind == "crashed"):
                key, text = "fails-but-matches", "the assertion failed although the value satisfies the pattern"
            elif aspect == "C03" and kind in ("entries", "verdict"):
                key, text = "wrong-entries", "the report's entries are not the failure frontier"
            elif aspect == "C19" and kind == "label":
                key, text = "wrong-label", "an entry's statement about the expected side does not agree with the pattern as written"
            elif aspect == "C05" and (kind == "actual-text" or (kind == "entries" and any(
                    e[0] == x[0] and e[2] != x[2] and not any(y[0] == e[0] and y[2] == e[2] for y in c.expect[1]) for e in c.got[1] for x in c.expect[1]))):
                key, text = "wrong-actual-text", "an entry's 'got' text is not the Debug form of the sub-value at that sub-pattern's path"
            if key:
                found_input = True
                ck.report("%s:%s" % (key, name), text + " (%s)" % what, dict(t3.describe(c), setup=getattr(c, "setup", "")))
        ck.corr_record("T3 %s (%s)" % (name, what), len(fam), len(fam), len(mism), dict(stats),
                       samples=[dict(invocation="assert_struct!(%s)" % c.text, value=c.value_text, setup=getattr(c, "setup", ""), impl=c.got[0], spec=str(c.expect)[:120]) for c in fam[:2]],
                       rule="systematic family, every case distinct")
    if aspect in ("C01", "C02"):
        unwinding_part(ck, aspect)
    ck.notes.append("forms exercised: " + ", ".join("%s=%d" % kv for kv in sorted(forms.items())))
    if t2_mm and not found_input:
        ck.report("corr:T2-body", "the model of the code generator no longer matches the real expansion (%d inputs differ); the theorems of %s are about a model the code has moved away from" % (len(t2_mm), aspect),
                  dict(broken="correspondence T2 (expansion tokens)", theorems=theorems, first=t2_mm[:3]), no_input=True)
    import parsetie
    parsetie.light_tie(ck, "%s: the specification reads every pattern with the model parser" % aspect)
    ck.assumptions += [
        "Rust's dynamic semantics for the constructs the expansion uses (match with default binding modes, matches!, std PartialEq/PartialOrd/Debug) are modelled by AsModel.Exec / RustPrims and validated by the T3 corpora, not proved",
        "user expressions are opaque: their meaning is a parameter of every theorem (Prims) and a table supplied by the generator in T3",
    ]
    ck.trusted.append("model of Rust's semantics for the generated code (Exec.lean), validated differentially")
