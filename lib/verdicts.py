"""Shared body of the C01 / C02 / C03 / C05 checks: T2 + the T3 corpora, each property
looking at its own aspect of the same comparison."""
import t2
import t3


def streams(ck):
    n = 220 if ck.tier == "quick" else 2500
    out = {}
    for s in ("matching", "nearmiss", "mixed"):
        out[s] = t3.run_corpus(ck, s, n, per_bin=20)
    return out


def binding_path_cases(rng, _n):
    """Documented-looking value patterns that are paths: an identifier, a zero-argument call,
    a reference to a local.  The documentation lists `my_variable` and `compute_value()` as
    simple value patterns (compared by equality)."""
    import tgen
    cases = []
    decl = "#[derive(Debug)] pub struct W { pub f: i32, pub s: String }\npub fn five() -> i32 { 5 }\npub const K: i32 = 3;"
    val = 'W { f: 3, s: "abc".to_string() }'
    sexp = "(adt %s (names %s %s) (vals (int 3) (str %s)))" % (tgen.hexs("W"), tgen.hexs("f"), tgen.hexs("s"), tgen.hexs("abc"))
    for k, (pat, setup, meaning) in enumerate([
        ("W { f: expected, .. }", "let expected = 99i32;", "(v %s (int 99))" % tgen.hexs("expected")),
        ("W { f: five(), .. }", "", "(v %s (int 5))" % tgen.hexs("five")),
        ("W { f: K, .. }", "", "(v %s (int 3))" % tgen.hexs("K")),
        ("W { f: expected, .. }", "let expected = 3i32;", "(v %s (int 3))" % tgen.hexs("expected")),
    ]):
        c = t3.Case()
        c.id = k
        c.forms = {"binding-path": 1}
        c.perturbed = True
        c.meanings = "(meanings %s)" % meaning
        t3.finish_case(c, decl, "W", val, sexp, pat)
        c.setup = setup
        cases.append(c)
    return cases


def check(ck, aspect, theorems, t2_parts=("body", "status", "validity")):
    ck.prove(theorems)
    ck.build_harness("inproc")
    res = t2.run(ck)
    t2_mm = t2.record(ck, res, t2_parts, "assertion code")
    found_input = False
    forms = {}
    for stream, cases in streams(ck).items():
        stats, mism = t3.compare(ck, cases, stream)
        for c in cases:
            for k, v in c.forms.items():
                forms[k] = forms.get(k, 0) + v
        relevant = []
        for m in mism:
            c = m["case"]
            kind = m["kind"]
            ek, ee = c.expect
            gk = c.got[0]
            if aspect == "C01" and kind == "verdict" and gk == "pass":
                relevant.append(("passes-but-does-not-match", "the assertion returned normally although the value does not satisfy the pattern", m))
            elif aspect == "C02" and kind == "verdict" and gk == "fail":
                relevant.append(("fails-but-matches", "the assertion failed although the value satisfies the pattern", m))
            elif aspect == "C03" and kind == "entries":
                relevant.append(("wrong-entries", "the report's entries are not the failure frontier (one entry per failing leaf / failed shape, nothing else)", m))
            elif aspect == "C05" and kind == "actual-text":
                relevant.append(("wrong-actual-text", "an entry's 'got' text is not the Debug form of the sub-value at that sub-pattern's path", m))
            elif aspect == "C19" and kind == "label":
                relevant.append(("wrong-label", "an entry's statement about the expected side does not agree with the pattern as written", m))
            elif kind in ("crashed", "header") and aspect in ("C03",):
                relevant.append(("no-report", "the failing assertion did not produce a report: " + kind, m))
        for key, what, m in relevant:
            found_input = True
            c = m["case"]
            ck.report("%s:%s" % (key, "+".join(sorted(c.forms))[:60]), what, t3.describe(c))
        nontriv = len({c.text + c.value_text for c in cases if len(c.forms) >= 2 or c.perturbed})
        ck.corr_record("T3 %s stream (generated programs compiled against the real macro; verdict, entries (location + label) and actual texts vs the Lean specification on the same AST and value)" % stream,
                       len(cases), nontriv, len(mism), dict(stats),
                       samples=[dict(invocation="assert_struct!(%s)" % c.text[:160], value=c.value_text[:120], spec=str(c.expect)[:160], impl=c.got[0]) for c in cases[:2]],
                       rule="type-directed seeded generation: random type (depth<=3) -> value -> pattern derived from the value with a random form per node; %s; distinct = distinct (invocation, value); non-trivial = at least two forms in the pattern or a perturbed value" % (
                           {"matching": "value unperturbed (must pass)", "nearmiss": "1..n atoms / variants / lengths of the value perturbed", "mixed": "40% unperturbed"}[stream]))
    if aspect in ("C01", "C03"):
        bp = t3.run_corpus(ck, "binding-path", 0, per_bin=4, positions=binding_path_cases)
        stats, mism = t3.compare(ck, bp, "binding-path")
        for m in mism:
            c = m["case"]
            if m["kind"] == "verdict" and c.got[0] == "pass":
                ck.report("binding-path", "a value pattern that is a path (an identifier or a zero-argument call) binds instead of comparing: the assertion cannot fail", t3.describe(c))
        ck.corr_record("T3 path-valued patterns (identifier, zero-argument call, constant as a field's value pattern)", len(bp), len(bp), len(mism), dict(stats),
                       samples=[dict(invocation="assert_struct!(%s)" % c.text, setup=getattr(c, "setup", ""), impl=c.got[0], spec=str(c.expect)[:120]) for c in bp[:2]], rule="4 fixed programs")
    ck.notes.append("forms exercised: " + ", ".join("%s=%d" % kv for kv in sorted(forms.items())))
    if t2_mm and not found_input:
        ck.report("corr:T2-body", "the model of the code generator no longer matches the real expansion (%d inputs differ); the theorems of %s are about a model the code has moved away from" % (len(t2_mm), aspect),
                  dict(broken="correspondence T2 (expansion tokens)", theorems=theorems, first=t2_mm[:3]), no_input=True)
    ck.assumptions += [
        "Rust's dynamic semantics for the constructs the expansion uses (match with default binding modes, matches!, std PartialEq/PartialOrd/Debug) are modelled by AsModel.Exec / RustPrims and validated by the T3 corpora, not proved",
        "user expressions are opaque: their meaning is a parameter of every theorem (Prims) and a table supplied by the generator in T3",
    ]
    ck.trusted.append("model of Rust's semantics for the generated code (Exec.lean), validated differentially")
