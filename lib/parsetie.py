"""T1 (parser): the Lean parser model (Parse.lean) against the real parser, on the same
token trees and with `syn`'s answers (Expr / Path / ExprClosure at every position) as oracle.
Compared: accept / reject, the AST dump, the value tokens and the node counter afterwards
(on rejection too: the counter exposes what speculative forks consumed)."""
from vlib import hexs, unhexs


def compare(ck, texts, impl_outs=None):
    """Returns a list of (index, kind, detail) disagreements and a distribution."""
    if impl_outs is None:
        impl_outs = ck.rt_batch(["run " + hexs(t) for t in texts], binary="inproc", harness="inproc")
    dumps = ck.rt_batch(["ptoks " + hexs(t) for t in texts], binary="inproc", harness="inproc")
    req, idx = [], []
    dist = {}
    for k, d in enumerate(dumps):
        if d == "lexerr":
            dist["lexerr"] = dist.get("lexerr", 0) + 1
            continue
        req.append("parse\t" + d)
        idx.append(k)
    louts = ck.lean_batch(req) if req else []
    bad = []
    hyp = []
    ast_pairs = {}
    compare.ast_pairs = ast_pairs
    for k, lo in zip(idx, louts):
        f = impl_outs[k].split("\t")
        g = lo.split("\t")
        # hypotheses of the anchor theorem (C04), evaluated on this input's tables
        while g and (g[-1].startswith("tokens=") or g[-1].startswith("spans=")):
            flag = g.pop()
            if flag.endswith("BAD"):
                hyp.append((k, flag))
        if f[0] == "unavailable":
            dist["unavailable"] = dist.get("unavailable", 0) + 1
            continue     # the in-process harness does not build on this tree (reported once by build_harness)
        if f[0] == "ok":
            iv = ("accept", f[3], f[2], f[1])
        elif f[0] == "err":
            iv = ("reject", f[3])
        elif f[0] == "panic" and f[1] == "expand":
            iv = ("accept-then-expand-panic",)
        else:
            iv = (f[0],) + tuple(f[1:2])
        mv = tuple(g)
        dist[iv[0]] = dist.get(iv[0], 0) + 1
        if iv[0] == "accept-then-expand-panic":
            if mv[0] != "accept":
                bad.append((k, "verdict", "impl accepts (and panics in expansion), model: %s" % mv[0]))
            continue
        if iv[0] != mv[0]:
            bad.append((k, "verdict", "impl %s (%s), model %s" % (iv[0], unhexs(f[1])[:80] if f[0] == "err" else "", mv[0])))
        elif iv[0] == "accept":
            if iv[3] != mv[3]:
                a, b = iv[3], mv[3]
                i = next((i for i, (x, y) in enumerate(zip(a, b)) if x != y), min(len(a), len(b)))
                bad.append((k, "ast", "at %d: impl …%s  model …%s" % (i, a[max(0, i - 60):i + 60], b[max(0, i - 60):i + 60])))
                if len(ast_pairs) < 60:
                    ast_pairs[k] = (f, mv)
            elif iv[2] != mv[2]:
                bad.append((k, "value", "impl %s model %s" % (iv[2][:80], mv[2][:80])))
            elif iv[1] != mv[1]:
                bad.append((k, "counter", "impl next id %s, model counter %s" % (iv[1], mv[1])))
        elif iv[0] == "reject":
            if iv[1] != mv[1]:
                bad.append((k, "counter-on-reject", "impl next id %s, model counter %s" % (iv[1], mv[1])))
    dist['hypothesis_failures'] = len(hyp)
    compare.hyp = hyp
    return bad, dist


def record(ck, texts, impl_outs, what):
    """Runs the tie, records it in the evidence and reports a broken correspondence (no failing
    input by itself: the caller's own oracle decides whether the property fails anywhere)."""
    bad, dist = compare(ck, texts, impl_outs)
    ck.corr_record("T1 parser model (Parse.lean against the real parser on the same token trees and syn oracle tables: accept / reject, AST, value tokens, node counter afterwards, also after rejection) - " + what,
                   len(texts), len([1 for o in impl_outs if not o.startswith("ok")]), len(bad), dist,
                   samples=[dict(invocation=texts[k][:160], kind=kind, detail=d[:300]) for k, kind, d in bad[:4]],
                   rule="every input of the T1 set (corpus, edge patterns, generated patterns, truncations and single-token edits, token soup); non-trivial = rejected inputs")
    if bad and not [v for v in ck.violations if not v["no_input"]]:
        k, kind, d = bad[0]
        ck.report("corr:T1-parser", "the parser model no longer matches the implementation (%s)" % kind,
                  dict(invocation="assert_struct!(%s)" % texts[k], kind=kind, detail=d, disagreements=len(bad),
                       broken="correspondence T1/parser; the theorems about accepted inputs (C13_accepted_is_shaped, C13_front_end_total and the C15 class theorems) are about a parser the code no longer matches"),
                  no_input=True)
    return bad


def light_tie(ck, what):
    """The parser tie on VALID-LOOKING inputs only (repository corpus, edge patterns, the expression zoo, seeded generated patterns; no
    mutations): a few thousand inputs, a few seconds.  Every check whose specification reads patterns with the model parser runs it, so
    that a change of the real parser that matters to verdicts, locations or labels is at least a broken correspondence there."""
    import random
    import corpus
    import t2
    rng = random.Random("light-tie/%d" % ck.seed)
    texts = [t for _, t in corpus.repo_invocations()] + t2.EDGE + t2.ZOO + t2.gen_texts(rng, 300 if ck.tier == "quick" else 3000)
    seen = set()
    texts = [t for t in texts if not (t in seen or seen.add(t))]
    outs = ck.rt_batch(["run " + hexs(t) for t in texts], binary="inproc", harness="inproc")
    bad, dist = compare(ck, texts, outs)
    ck.corr_record("T1 parser model on valid-looking inputs (Parse.lean against the real parser: accept / reject, AST with every span, value tokens, node counter) - " + what,
                   len(texts), len([1 for o in outs if o.startswith("ok")]), len(bad), dist,
                   samples=[dict(invocation=texts[k][:160], kind=kind, detail=d[:300]) for k, kind, d in bad[:4]],
                   rule="repository corpus + edge patterns + expression zoo + seeded generated patterns, unmutated; non-trivial = accepted inputs")
    if bad:
        k, kind, d = bad[0]
        ck.report("corr:T1-parser", "the parser model no longer matches the real parser (%s): the specification of this check reads patterns with the model parser" % kind,
                  dict(invocation="assert_struct!(%s)" % texts[k], kind=kind, detail=d, disagreements=len(bad), broken="correspondence T1/parser"), no_input=True)
    return bad


def tree_violations(ck, texts, what_for):
    """For inputs both parsers accept with DIFFERENT syntax trees (left by the last `compare`): does the pattern tree the macro records
    (read off the real expansion) differ from the tree of the pattern as the model parser - sound for the declarative grammar - reads
    it?  Then the recorded tree does not mirror what was written: a violation of C14 with the input (node kinds, child order, rest
    flags, parents, positions).  Differences that do not reach the recorded tree are left to the correspondence report."""
    import t2
    pairs = getattr(compare, "ast_pairs", {})
    if not pairs:
        return 0
    ks = sorted(pairs)
    outs = ck.lean_batch(["expand\t%s\t%s" % (pairs[k][1][3], pairs[k][0][2]) for k in ks])
    n = 0
    for k, lo in zip(ks, outs):
        g = lo.split("\t")
        f = pairs[k][0]
        if g[0] != "ok" or len(f) < 7:
            continue
        ta = t2.node_table(f[6][6:-1].split(" "))
        tb = t2.node_table(g[2][6:-1].split(" "))
        if ta is None or tb is None or ta == tb:
            continue
        n += 1
        diffs = ["%s: recorded %s | as written %s" % (x, ta.get(x), tb.get(x)) for x in sorted(set(ta) | set(tb)) if ta.get(x) != tb.get(x)]
        ck.report("tree-differs:" + hexs(texts[k])[:40], "the pattern tree the macro records for an accepted invocation (node kinds, child order, rest flags, parents, source positions) is not the tree of the pattern as written",
                  dict(invocation="assert_struct!(%s)" % texts[k], per_node="(kind, children, rest, parent, position)", differences=diffs[:6]))
    return n
