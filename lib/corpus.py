"""Extraction of real-world invocations: every assert_struct!( ... ) in the repository's
tests, examples and documentation."""
import os
import re

REPO = "/repo"


def _scan_invocations(text):
    out = []
    for m in re.finditer(r"assert_struct!\s*\(", text):
        i = m.end()
        depth = 1
        j = i
        n = len(text)
        while j < n and depth > 0:
            c = text[j]
            if c == '"':
                # string literal (handles escapes); raw strings handled below
                j += 1
                while j < n and text[j] != '"':
                    if text[j] == "\\":
                        j += 1
                    j += 1
            elif c == "r" and re.match(r'r#*"', text[j:]):
                mm = re.match(r'r(#*)"', text[j:])
                close = '"' + mm.group(1)
                k = text.find(close, j + len(mm.group(0)))
                j = (k + len(close) - 1) if k >= 0 else n
            elif c == "'" and re.match(r"'(\\.|[^\\'])'", text[j:]):
                j += len(re.match(r"'(\\.|[^\\'])'", text[j:]).group(0)) - 1
            elif text.startswith("//", j):
                k = text.find("\n", j)
                j = k if k >= 0 else n
            elif text.startswith("/*", j):
                k = text.find("*/", j)
                j = k + 1 if k >= 0 else n
            elif c in "([{":
                depth += 1
            elif c in ")]}":
                depth -= 1
            j += 1
        if depth == 0:
            out.append(text[i:j - 1])
    return out


def repo_invocations():
    """(origin, invocation text) for every assert_struct! call found under /repo."""
    res = []
    roots = [os.path.join(REPO, "assert-struct", "tests"), os.path.join(REPO, "assert-struct", "examples"),
             os.path.join(REPO, "assert-struct", "src"), os.path.join(REPO, "assert-struct-macros", "src"),
             os.path.join(REPO, "README.md")]
    for r in roots:
        files = []
        if os.path.isfile(r):
            files = [r]
        else:
            for dp, _, fs in os.walk(r):
                for f in fs:
                    if f.endswith((".rs", ".md")):
                        files.append(os.path.join(dp, f))
        for f in sorted(files):
            try:
                txt = open(f, encoding="utf-8").read()
            except OSError:
                continue
            if f.endswith(".rs") and ("/src/" in f):
                # doc comments: strip the leading `///` / `//!` so that examples are scanned as code
                txt = "\n".join(re.sub(r"^\s*//[/!] ?", "", ln) if re.match(r"^\s*//[/!]", ln) else ln for ln in txt.split("\n"))
            for inv in _scan_invocations(txt):
                res.append((os.path.relpath(f, REPO), inv))
    seen = set()
    uniq = []
    for o, t in res:
        if t not in seen:
            seen.add(t)
            uniq.append((o, t))
    return uniq
