#!/bin/sh
# Build the framework from files on disk only (offline): Lean model + theorems + driver,
# and the Rust harness crates against /repo's working tree.
set -e
cd "$(dirname "$0")"
export CARGO_NET_OFFLINE=true
python3 tools/gen_wiring.py
(cd lean && lake build AsModel driver)
for h in harness/*/; do
  if [ -f "$h/Cargo.toml" ] && [ ! -f "$h/.nobuild" ]; then
    [ -f "$h/Cargo.lock" ] || cp /repo/Cargo.lock "$h/Cargo.lock"
    (cd "$h" && cargo build --release --offline)
  fi
done
echo setup-ok
