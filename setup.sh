#!/bin/sh
# Build the framework from files on disk only (offline): Lean model + theorems + driver,
# and the Rust harness crates against /repo's working tree.
set -e
cd "$(dirname "$0")"
export CARGO_NET_OFFLINE=true
python3 tools/gen_wiring.py
(cd lean && lake build AsModel driver)
for h in harness/*/; do
  if [ -f "$h/Cargo.toml" ] && [ ! -f "$h/.nobuild" ]; then
    # the in-process harness compiles the macro crate's own sources: copy them in first (never committed)
    [ -x "$h/sync.sh" ] && "$h/sync.sh"
    [ -f "$h/Cargo.lock" ] || cp /repo/Cargo.lock "$h/Cargo.lock"
    # a harness that does not build against the current tree is reported by the checks (corr:*-harness-build), not here
    (cd "$h" && cargo build --release --offline) || echo "setup: $h did not build; the checks will report it"
  fi
done
echo setup-ok
