//! `gated <file> <module prefix | ->`: the items of a source file of the runtime crate, each with the `cfg` features it is compiled
//! under.  One line per item: `G <name>` (only with `feature = "regex"`), `N <name>` (only WITHOUT it), `O <name>` (always).
//! Names: `mod::path::Item` for named items and the leaves of `pub use` trees (as re-exported), `impl <Trait> for <Type>` /
//! `impl <Type>` for impl blocks (token text without blanks).  Inline modules are entered; a gate on a module gates what is in it.
use quote::ToTokens;

#[derive(Clone, Copy, PartialEq)]
enum Gate {
    Open,
    With,
    Without,
}

fn squash(s: String) -> String {
    s.chars().filter(|c| !c.is_whitespace()).collect()
}

fn gate_of(attrs: &[syn::Attribute], outer: Gate) -> Gate {
    let mut g = outer;
    for a in attrs {
        if a.path().is_ident("cfg") {
            let t = squash(a.meta.to_token_stream().to_string());
            if t.contains("feature=\"regex\"") {
                g = if t.contains("not(feature=\"regex\")") { Gate::Without } else { Gate::With };
            }
        }
    }
    g
}

fn use_leaves(t: &syn::UseTree, out: &mut Vec<String>) {
    match t {
        syn::UseTree::Path(p) => use_leaves(&p.tree, out),
        syn::UseTree::Name(n) => out.push(n.ident.to_string()),
        syn::UseTree::Rename(r) => out.push(r.rename.to_string()),
        syn::UseTree::Glob(_) => out.push("*".into()),
        syn::UseTree::Group(g) => g.items.iter().for_each(|i| use_leaves(i, out)),
    }
}

fn walk(items: &[syn::Item], prefix: &str, outer: Gate, out: &mut Vec<(Gate, String)>) {
    let q = |n: String| if prefix.is_empty() { n } else { format!("{}::{}", prefix, n) };
    for it in items {
        match it {
            syn::Item::Mod(m) => {
                let g = gate_of(&m.attrs, outer);
                out.push((g, q(m.ident.to_string())));
                if let Some((_, inner)) = &m.content {
                    walk(inner, &q(m.ident.to_string()), g, out);
                }
            }
            syn::Item::Use(u) => {
                let g = gate_of(&u.attrs, outer);
                if matches!(u.vis, syn::Visibility::Public(_)) {
                    let mut leaves = Vec::new();
                    use_leaves(&u.tree, &mut leaves);
                    for l in leaves {
                        out.push((g, q(l)));
                    }
                }
            }
            syn::Item::Impl(i) => {
                let g = gate_of(&i.attrs, outer);
                let ty = squash(i.self_ty.to_token_stream().to_string());
                let name = match &i.trait_ {
                    Some((_, p, _)) => format!("impl {} for {}", squash(p.to_token_stream().to_string()), ty),
                    None => format!("impl {}", ty),
                };
                out.push((g, name));
            }
            syn::Item::Fn(f) => out.push((gate_of(&f.attrs, outer), q(f.sig.ident.to_string()))),
            syn::Item::Struct(s) => out.push((gate_of(&s.attrs, outer), q(s.ident.to_string()))),
            syn::Item::Enum(s) => out.push((gate_of(&s.attrs, outer), q(s.ident.to_string()))),
            syn::Item::Trait(s) => out.push((gate_of(&s.attrs, outer), q(s.ident.to_string()))),
            syn::Item::Type(s) => out.push((gate_of(&s.attrs, outer), q(s.ident.to_string()))),
            syn::Item::Const(s) => out.push((gate_of(&s.attrs, outer), q(s.ident.to_string()))),
            syn::Item::Static(s) => out.push((gate_of(&s.attrs, outer), q(s.ident.to_string()))),
            syn::Item::Macro(m) => {
                if let Some(id) = &m.ident {
                    out.push((gate_of(&m.attrs, outer), q(id.to_string())));
                }
            }
            _ => {}
        }
    }
}

pub fn gated(path: &str, prefix: &str) -> String {
    let text = match std::fs::read_to_string(path) {
        Ok(t) => t,
        Err(e) => return format!("error {}", e),
    };
    let file = match syn::parse_file(&text) {
        Ok(f) => f,
        Err(e) => return format!("error {}", e),
    };
    let mut out = Vec::new();
    walk(&file.items, if prefix == "-" { "" } else { prefix }, Gate::Open, &mut out);
    out.iter()
        .map(|(g, n)| format!("{}\t{}", match g { Gate::Open => "O", Gate::With => "G", Gate::Without => "N" }, n))
        .collect::<Vec<_>>()
        .join("\x1f")
}
