//! The commands that need `syn` / proc-macro2 only (`toks`, `ptoks`): shared by the in-process harness and the stand-alone `toks` binary.
#![allow(dead_code)]
use crate::dump_syn as dump;
use std::str::FromStr;

pub fn unhex(s: &str) -> String {
    if s == "-" {
        return String::new();
    }
    let b: Vec<u8> = (0..s.len() / 2).map(|i| u8::from_str_radix(&s[2 * i..2 * i + 2], 16).unwrap()).collect();
    String::from_utf8(b).unwrap()
}

/// ptoks <hex text> -> `(ts tt...)` TAB `(oracle (o ...)...)`: the input of the Lean parser model.
pub fn parser_input(text: &str) -> String {
    let text = &format!(" {}", text);
    match proc_macro2::TokenStream::from_str(text) {
        Err(_) => "lexerr".into(),
        Ok(ts) => {
            let mut o = Vec::new();
            let mut path = Vec::new();
            dump::oracle(&ts, &mut path, &mut o);
            format!("(ts {})\t(oracle {})", dump::tts(&ts), o.join(" "))
        }
    }
}

/// toks <hex text> -> the flat token list: `hex(text):j` per token (j = 1 for a punct that is
/// joint with the next token), group delimiters as tokens of their own.
pub fn flat_tokens(text: &str) -> String {
    fn go(ts: proc_macro2::TokenStream, out: &mut Vec<String>) {
        use proc_macro2::{Delimiter, Spacing, TokenTree};
        for tt in ts {
            match tt {
                TokenTree::Group(g) => {
                    let (o, c) = match g.delimiter() {
                        Delimiter::Parenthesis => ("(", ")"),
                        Delimiter::Brace => ("{", "}"),
                        Delimiter::Bracket => ("[", "]"),
                        Delimiter::None => ("", ""),
                    };
                    out.push(format!("{}:0", dump::hex(o)));
                    go(g.stream(), out);
                    out.push(format!("{}:0", dump::hex(c)));
                }
                TokenTree::Punct(p) => out.push(format!("{}:{}", dump::hex(&p.as_char().to_string()), if p.spacing() == Spacing::Joint { 1 } else { 0 })),
                other => out.push(format!("{}:0", dump::hex(&other.to_string()))),
            }
        }
    }
    match proc_macro2::TokenStream::from_str(text) {
        Err(_) => "lexerr".into(),
        Ok(ts) => {
            let mut v = Vec::new();
            go(ts, &mut v);
            v.join(" ")
        }
    }
}

