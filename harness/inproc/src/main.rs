//! T1/T2 harness: the macro crate's own sources (copied from /repo at run time by
//! sync.sh) compiled as an ordinary binary, so that the real parser and the real
//! code generator run in process on arbitrary invocation texts.
#![allow(dead_code)]
mod dump;
mod dump_syn;
mod expand;
mod parse;
mod pattern;
mod toks_cmds;

use pattern::Pattern;
use toks_cmds::{flat_tokens, parser_input, unhex};
use std::io::{BufRead, Write};
use std::panic::{catch_unwind, AssertUnwindSafe};
use std::str::FromStr;

// The definition in assert-struct-macros/src/lib.rs, copied by sync.sh (the check driver compares its
// text with the two-field shape this harness mirrors on every run and reports a difference).
include!("assert_struct_def.rs");

fn panic_msg(e: Box<dyn std::any::Any + Send>) -> String {
    if let Some(s) = e.downcast_ref::<&str>() {
        s.to_string()
    } else if let Some(s) = e.downcast_ref::<String>() {
        s.clone()
    } else {
        "?".into()
    }
}

/// run <hex text>  ->  tab-separated fields:
///   ok   \t AST \t value-tokens \t counter \t locations \t expansion-tokens
///   err  \t hex(message) \t span
///   lexerr
///   panic \t stage \t hex(message)
fn run(text: &str, observe_counter: bool) -> String {
    let text = &format!(" {}", text);
    let ts = match proc_macro2::TokenStream::from_str(text) {
        Ok(ts) => ts,
        Err(_) => return "lexerr".into(),
    };
    let parsed = catch_unwind(AssertUnwindSafe(|| syn::parse2::<AssertStruct>(ts)));
    // Observing the counter draws an id, which a later invocation could see if the parser did not reset the counter itself:
    // histories (`runq`) are run without the observation.
    let counter_after = if observe_counter { parse::next_node_id().to_string() } else { "-".to_string() };
    let a = match parsed {
        Err(e) => return format!("panic\tparse\t{}", dump::hex(&panic_msg(e))),
        Ok(Err(e)) => return format!("err\t{}\t{}\t{}", dump::hex(&e.to_string()), dump::sp(e.span()), counter_after),
        Ok(Ok(a)) => a,
    };
    let ast = dump::pat(&a.pattern);
    let mut locs = Vec::new();
    dump::locations(&a.pattern, &mut locs);
    let value = {
        use quote::ToTokens;
        dump::toks_str(&a.value.to_token_stream())
    };
    let expanded = catch_unwind(AssertUnwindSafe(|| expand::expand(&a)));
    let exp = match expanded {
        Err(e) => return format!("panic\texpand\t{}\t{}", dump::hex(&panic_msg(e)), ast),
        Ok(ts) => ts,
    };
    let valid = syn::parse2::<syn::Block>(exp.clone()).is_ok();
    format!(
        "ok\t{}\t{}\t{}\t{}\t{}\t{}",
        ast,
        value,
        counter_after,
        locs.join(" "),
        if valid { "valid-block" } else { "INVALID-RUST" },
        dump::toks_str(&exp)
    )
}

fn main() {
    std::panic::set_hook(Box::new(|_| {}));
    let stdin = std::io::stdin();
    let stdout = std::io::stdout();
    let mut out = std::io::BufWriter::new(stdout.lock());
    for line in stdin.lock().lines() {
        let line = line.unwrap();
        let t: Vec<&str> = line.split_whitespace().collect();
        let a = match t.first().copied() {
            Some("run") => run(&unhex(t.get(1).copied().unwrap_or("-")), true),
            Some("runq") => run(&unhex(t.get(1).copied().unwrap_or("-")), false),
            Some("toks") => flat_tokens(&unhex(t.get(1).copied().unwrap_or("-"))),
            Some("ptoks") => parser_input(&unhex(t.get(1).copied().unwrap_or("-"))),
            _ => "bad-op".to_string(),
        };
        writeln!(out, "{}", a).unwrap();
    }
    out.flush().unwrap();
}
