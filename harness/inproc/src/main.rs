//! T1/T2 harness: the macro crate's own sources (copied from /repo at run time by
//! sync.sh) compiled as an ordinary binary, so that the real parser and the real
//! code generator run in process on arbitrary invocation texts.
#![allow(dead_code)]
mod dump;
mod expand;
mod parse;
mod pattern;

use pattern::Pattern;
use std::io::{BufRead, Write};
use std::panic::{catch_unwind, AssertUnwindSafe};
use std::str::FromStr;

// Must stay identical to the definition in assert-struct-macros/src/lib.rs
// (the check driver compares the two texts on every run).
struct AssertStruct {
    value: syn::Expr,
    pattern: Pattern,
}

fn unhex(s: &str) -> String {
    if s == "-" {
        return String::new();
    }
    let b: Vec<u8> = (0..s.len() / 2).map(|i| u8::from_str_radix(&s[2 * i..2 * i + 2], 16).unwrap()).collect();
    String::from_utf8(b).unwrap()
}

fn panic_msg(e: Box<dyn std::any::Any + Send>) -> String {
    if let Some(s) = e.downcast_ref::<&str>() {
        s.to_string()
    } else if let Some(s) = e.downcast_ref::<String>() {
        s.clone()
    } else {
        "?".into()
    }
}

/// run <hex text>  ->  tab-separated fields:
///   ok   \t AST \t value-tokens \t counter \t locations \t expansion-tokens
///   err  \t hex(message) \t span
///   lexerr
///   panic \t stage \t hex(message)
fn run(text: &str) -> String {
    let text = &format!(" {}", text);
    let ts = match proc_macro2::TokenStream::from_str(text) {
        Ok(ts) => ts,
        Err(_) => return "lexerr".into(),
    };
    let parsed = catch_unwind(AssertUnwindSafe(|| syn::parse2::<AssertStruct>(ts)));
    let counter_after = parse::next_node_id();
    let a = match parsed {
        Err(e) => return format!("panic\tparse\t{}", dump::hex(&panic_msg(e))),
        Ok(Err(e)) => return format!("err\t{}\t{}\t{}", dump::hex(&e.to_string()), dump::sp(e.span()), counter_after),
        Ok(Ok(a)) => a,
    };
    let ast = dump::pat(&a.pattern);
    let mut locs = Vec::new();
    dump::locations(&a.pattern, &mut locs);
    let value = {
        use quote::ToTokens;
        dump::toks_str(&a.value.to_token_stream())
    };
    let expanded = catch_unwind(AssertUnwindSafe(|| expand::expand(&a)));
    let exp = match expanded {
        Err(e) => return format!("panic\texpand\t{}\t{}", dump::hex(&panic_msg(e)), ast),
        Ok(ts) => ts,
    };
    let valid = syn::parse2::<syn::Block>(exp.clone()).is_ok();
    format!(
        "ok\t{}\t{}\t{}\t{}\t{}\t{}",
        ast,
        value,
        counter_after,
        locs.join(" "),
        if valid { "valid-block" } else { "INVALID-RUST" },
        dump::toks_str(&exp)
    )
}

/// ptoks <hex text> -> `(ts tt...)` TAB `(oracle (o ...)...)`: the input of the Lean parser model.
fn parser_input(text: &str) -> String {
    let text = &format!(" {}", text);
    match proc_macro2::TokenStream::from_str(text) {
        Err(_) => "lexerr".into(),
        Ok(ts) => {
            let mut o = Vec::new();
            let mut path = Vec::new();
            dump::oracle(&ts, &mut path, &mut o);
            format!("(ts {})\t(oracle {})", dump::tts(&ts), o.join(" "))
        }
    }
}

/// toks <hex text> -> the flat token list: `hex(text):j` per token (j = 1 for a punct that is
/// joint with the next token), group delimiters as tokens of their own.
fn flat_tokens(text: &str) -> String {
    fn go(ts: proc_macro2::TokenStream, out: &mut Vec<String>) {
        use proc_macro2::{Delimiter, Spacing, TokenTree};
        for tt in ts {
            match tt {
                TokenTree::Group(g) => {
                    let (o, c) = match g.delimiter() {
                        Delimiter::Parenthesis => ("(", ")"),
                        Delimiter::Brace => ("{", "}"),
                        Delimiter::Bracket => ("[", "]"),
                        Delimiter::None => ("", ""),
                    };
                    out.push(format!("{}:0", dump::hex(o)));
                    go(g.stream(), out);
                    out.push(format!("{}:0", dump::hex(c)));
                }
                TokenTree::Punct(p) => out.push(format!("{}:{}", dump::hex(&p.as_char().to_string()), if p.spacing() == Spacing::Joint { 1 } else { 0 })),
                other => out.push(format!("{}:0", dump::hex(&other.to_string()))),
            }
        }
    }
    match proc_macro2::TokenStream::from_str(text) {
        Err(_) => "lexerr".into(),
        Ok(ts) => {
            let mut v = Vec::new();
            go(ts, &mut v);
            v.join(" ")
        }
    }
}

fn main() {
    std::panic::set_hook(Box::new(|_| {}));
    let stdin = std::io::stdin();
    let stdout = std::io::stdout();
    let mut out = std::io::BufWriter::new(stdout.lock());
    for line in stdin.lock().lines() {
        let line = line.unwrap();
        let t: Vec<&str> = line.split_whitespace().collect();
        let a = match t.first().copied() {
            Some("run") => run(&unhex(t.get(1).copied().unwrap_or("-"))),
            Some("toks") => flat_tokens(&unhex(t.get(1).copied().unwrap_or("-"))),
            Some("ptoks") => parser_input(&unhex(t.get(1).copied().unwrap_or("-"))),
            _ => "bad-op".to_string(),
        };
        writeln!(out, "{}", a).unwrap();
    }
    out.flush().unwrap();
}
