//! `toks`: the token-level commands of the in-process harness (`toks`, `ptoks`) as a binary of their own.  It depends on `syn` and
//! proc-macro2 only - not on the macro crate's sources - so the specification side of the checks (the Lean parser model is fed from
//! `ptoks`) keeps working when a change to the macro crate's own types stops the main harness from compiling.
mod dump_syn;
mod gated;
mod toks_cmds;
use std::io::{BufRead, Write};
use toks_cmds::{flat_tokens, parser_input, unhex};

fn main() {
    let stdin = std::io::stdin();
    let stdout = std::io::stdout();
    let mut out = std::io::BufWriter::new(stdout.lock());
    for line in stdin.lock().lines() {
        let line = line.unwrap();
        let t: Vec<&str> = line.split_whitespace().collect();
        let a = match t.first().copied() {
            Some("toks") => flat_tokens(&unhex(t.get(1).copied().unwrap_or("-"))),
            Some("ptoks") => parser_input(&unhex(t.get(1).copied().unwrap_or("-"))),
            // gated <hex path> <module prefix | ->: the items of a runtime-crate source file with their feature gates (C16's translator)
            Some("gated") => gated::gated(&unhex(t.get(1).copied().unwrap_or("-")), t.get(2).copied().unwrap_or("-")),
            _ => "bad-op".to_string(),
        };
        writeln!(out, "{}", a).unwrap();
    }
    out.flush().unwrap();
}
