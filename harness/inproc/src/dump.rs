//! Printers for the T1/T2 ties: the parsed pattern AST and flat token dumps.
//! The Lean model prints the same formats from its own AST; the check compares text.
use crate::pattern::*;
use proc_macro2::{Delimiter, Span, TokenStream, TokenTree};
use quote::ToTokens;
use syn::spanned::Spanned;

pub fn hex(s: &str) -> String {
    if s.is_empty() {
        return "-".to_string();
    }
    s.bytes().map(|b| format!("{:02x}", b)).collect()
}

/// Spans are printed as `line.col.line.col`.  The harness prepends one space to every
/// invocation text, so no user token starts at 1:0; a span that does start there is a
/// template token (call site, or a literal written inside `quote!`, which proc-macro2's
/// fallback mode parses in a source "file" of its own) and is printed as the call site.
pub fn sp(s: Span) -> String {
    let a = s.start();
    let b = s.end();
    if a.line == 1 && a.column == 0 {
        return "1.0.1.0".to_string();
    }
    format!("{}.{}.{}.{}", a.line, a.column, b.line, b.column)
}

/// Flat token dump: every token as `hex(text)@span`, groups as their delimiters.
pub fn toks(ts: &TokenStream, out: &mut Vec<String>) {
    for tt in ts.clone() {
        match tt {
            TokenTree::Group(g) => {
                let (o, c) = match g.delimiter() {
                    Delimiter::Parenthesis => ("(", ")"),
                    Delimiter::Brace => ("{", "}"),
                    Delimiter::Bracket => ("[", "]"),
                    Delimiter::None => ("\u{27e8}", "\u{27e9}"),
                };
                out.push(format!("{}@{}", hex(o), sp(g.span())));
                toks(&g.stream(), out);
                out.push(format!("{}@{}", hex(c), sp(g.span())));
            }
            TokenTree::Ident(i) => out.push(format!("{}@{}", hex(&i.to_string()), sp(i.span()))),
            TokenTree::Punct(p) => out.push(format!("{}@{}", hex(&p.as_char().to_string()), sp(p.span()))),
            TokenTree::Literal(l) => {
                let text = l.to_string();
                // string literals are identified by their value, not by their escaping
                match syn::parse_str::<syn::LitStr>(&text) {
                    Ok(ls) if text.starts_with('"') || text.starts_with('r') => {
                        out.push(format!("s:{}@{}", hex(&ls.value()), sp(l.span())))
                    }
                    _ => out.push(format!("{}@{}", hex(&text), sp(l.span()))),
                }
            }
        }
    }
}

pub fn toks_str(ts: &TokenStream) -> String {
    let mut v = Vec::new();
    toks(ts, &mut v);
    format!("(toks {})", v.join(" "))
}

pub fn expr(e: &syn::Expr) -> String {
    let cls = match e {
        syn::Expr::Lit(syn::ExprLit { lit: syn::Lit::Str(l), .. }) => format!("(litstr {})", hex(&l.value())),
        syn::Expr::Lit(_) => "(lit)".to_string(),
        syn::Expr::Range(r) => format!(
            "(range {} {} {})",
            r.start.as_ref().map(|s| sp(s.span())).unwrap_or("none".into()),
            sp(r.limits.span()),
            r.end.as_ref().map(|s| sp(s.span())).unwrap_or("none".into())
        ),
        syn::Expr::Closure(c) => format!("(closure {})", c.inputs.len()),
        syn::Expr::Path(_) => "(path)".to_string(),
        _ => "(other)".to_string(),
    };
    format!("(e {} {} {} {})", cls, sp(e.span()), hex(&e.to_token_stream().to_string()), toks_str(&e.to_token_stream()))
}

pub fn path(p: &syn::Path) -> String {
    let first = p.segments.first().map(|s| sp(s.ident.span())).unwrap_or("none".into());
    let last = p.segments.last().map(|s| sp(s.ident.span())).unwrap_or("none".into());
    format!("(path {} {} {} {} {})", first, last, sp(p.span()), hex(&p.to_token_stream().to_string()), toks_str(&p.to_token_stream()))
}

fn op(o: &FieldOperation) -> String {
    match o {
        FieldOperation::Deref { count, span } => format!("(deref {} {})", count, sp(*span)),
        FieldOperation::Method { name, args, span } => format!(
            "(method {}@{} {} (args{}))",
            hex(&name.to_string()),
            sp(name.span()),
            sp(*span),
            args.iter().map(|a| format!(" {}", expr(a))).collect::<String>()
        ),
        FieldOperation::Await { span } => format!("(await {})", sp(*span)),
        FieldOperation::NamedField { name, span } => format!("(named {}@{} {})", hex(&name.to_string()), sp(name.span()), sp(*span)),
        FieldOperation::UnnamedField { index, span } => format!("(unnamed {} {})", index, sp(*span)),
        FieldOperation::Index { index, span } => format!("(index {} {})", expr(index), sp(*span)),
        FieldOperation::Chained { operations, span } => format!(
            "(chained {}{})",
            sp(*span),
            operations.iter().map(|o| format!(" {}", op(o))).collect::<String>()
        ),
    }
}

fn elem(e: &TupleElement) -> String {
    match e {
        TupleElement::Positional(p) => format!("(pos {})", pat(p)),
        TupleElement::Indexed(fa) => format!("(idx {} {})", op(&fa.operations), pat(&fa.pattern)),
    }
}

pub fn pat(p: &Pattern) -> String {
    match p {
        Pattern::Simple(x) => format!("(simple {} {})", x.node_id, expr(&x.expr)),
        Pattern::String(x) => {
            let mut v = Vec::new();
            toks(&x.lit.to_token_stream(), &mut v);
            format!("(string {} {} {} {})", x.node_id, hex(&x.lit.value()), sp(x.lit.span()), v.join(" "))
        }
        Pattern::Struct(x) => format!(
            "(struct {} {} (fields{}) {})",
            x.node_id,
            x.path.as_ref().map(path).unwrap_or("none".into()),
            x.fields.iter().map(|f| format!(" (f {} {})", op(&f.operations), pat(&f.pattern))).collect::<String>(),
            x.rest
        ),
        Pattern::Enum(x) => format!(
            "(enum {} {} (elems{}))",
            x.node_id,
            path(&x.path),
            x.elements.iter().map(|e| format!(" {}", elem(e))).collect::<String>()
        ),
        Pattern::Tuple(x) => format!(
            "(tuple {} {} (elems{}))",
            x.node_id,
            sp(x.span),
            x.elements.iter().map(|e| format!(" {}", elem(e))).collect::<String>()
        ),
        Pattern::Slice(x) => format!(
            "(slice {} {} (pats{}))",
            x.node_id,
            sp(x.span),
            x.elements.iter().map(|e| format!(" {}", pat(e))).collect::<String>()
        ),
        Pattern::Set(x) => format!(
            "(set {} {} (pats{}) {})",
            x.node_id,
            sp(x.span),
            x.elements.iter().map(|e| format!(" {}", pat(e))).collect::<String>(),
            x.rest
        ),
        Pattern::Comparison(x) => {
            let o = match &x.op {
                ComparisonOp::Less(_) => "lt",
                ComparisonOp::LessEqual(_) => "le",
                ComparisonOp::Greater(_) => "gt",
                ComparisonOp::GreaterEqual(_) => "ge",
                ComparisonOp::Equal(_) => "eq",
                ComparisonOp::NotEqual(_) => "ne",
            };
            format!("(cmp {} {} {} {})", x.node_id, o, sp(x.op.span()), expr(&x.expr))
        }
        Pattern::Range(x) => format!("(range {} {})", x.node_id, expr(&x.expr)),
        #[cfg(feature = "regex")]
        Pattern::Regex(x) => format!("(regex {} {} {})", x.node_id, hex(&x.pattern), sp(x.span)),
        #[cfg(feature = "regex")]
        Pattern::Like(x) => format!("(like {} {})", x.node_id, expr(&x.expr)),
        Pattern::Wildcard(x) => format!("(wild {})", x.node_id),
        Pattern::Closure(x) => {
            let e = syn::Expr::Closure(x.closure.clone());
            format!("(closure {} {})", x.node_id, expr(&e))
        }
        Pattern::Map(x) => format!(
            "(map {} {} (entries{}) {})",
            x.node_id,
            sp(x.span),
            x.entries.iter().map(|(k, v)| format!(" (kv {} {})", expr(k), pat(v))).collect::<String>(),
            x.rest
        ),
    }
}

/// `Pattern::location()` for every node, in pre-order: `id:ls.cs.le.ce`.
pub fn locations(p: &Pattern, out: &mut Vec<String>) {
    let (a, b, c, d) = p.location();
    let id = match p {
        Pattern::Simple(x) => x.node_id,
        Pattern::String(x) => x.node_id,
        Pattern::Struct(x) => x.node_id,
        Pattern::Enum(x) => x.node_id,
        Pattern::Tuple(x) => x.node_id,
        Pattern::Slice(x) => x.node_id,
        Pattern::Set(x) => x.node_id,
        Pattern::Comparison(x) => x.node_id,
        Pattern::Range(x) => x.node_id,
        #[cfg(feature = "regex")]
        Pattern::Regex(x) => x.node_id,
        #[cfg(feature = "regex")]
        Pattern::Like(x) => x.node_id,
        Pattern::Wildcard(x) => x.node_id,
        Pattern::Closure(x) => x.node_id,
        Pattern::Map(x) => x.node_id,
    };
    out.push(format!("{}:{}.{}.{}.{}", id, a, b, c, d));
    let el = |e: &TupleElement, out: &mut Vec<String>| match e {
        TupleElement::Positional(p) => locations(p, out),
        TupleElement::Indexed(fa) => locations(&fa.pattern, out),
    };
    match p {
        Pattern::Struct(x) => x.fields.iter().for_each(|f| locations(&f.pattern, out)),
        Pattern::Enum(x) => x.elements.iter().for_each(|e| el(e, out)),
        Pattern::Tuple(x) => x.elements.iter().for_each(|e| el(e, out)),
        Pattern::Slice(x) => x.elements.iter().for_each(|e| locations(e, out)),
        Pattern::Set(x) => x.elements.iter().for_each(|e| locations(e, out)),
        Pattern::Map(x) => x.entries.iter().for_each(|(_, v)| locations(v, out)),
        _ => {}
    }
}

/// Token trees with everything the parser model looks at.
///   (i hex(name) sp keyword)   (p hex(char) joint sp)   (l kind hex(text) sp extra)   (g delim sp spopen spclose tt...)
/// kind: int (extra = base-10 digits or `bad`), float, str (extra = hex(value)), other.
pub fn tts(ts: &TokenStream) -> String {
    let mut out = Vec::new();
    for tt in ts.clone() {
        out.push(match tt {
            TokenTree::Group(g) => {
                let d = match g.delimiter() {
                    Delimiter::Parenthesis => "paren",
                    Delimiter::Brace => "brace",
                    Delimiter::Bracket => "bracket",
                    Delimiter::None => "none",
                };
                let ds = g.delim_span();
                format!("(g {} {} {} {} {})", d, sp(g.span()), sp(ds.open()), sp(ds.close()), tts(&g.stream()))
            }
            TokenTree::Ident(i) => {
                // whether `syn::Ident` accepts this identifier (keywords and `_` are not accepted)
                let one: TokenStream = std::iter::once(TokenTree::Ident(i.clone())).collect();
                let kw = syn::parse2::<syn::Ident>(one).is_err();
                format!("(i {} {} {})", hex(&i.to_string()), sp(i.span()), if kw { 1 } else { 0 })
            }
            TokenTree::Punct(p) => format!("(p {} {} {})", hex(&p.as_char().to_string()), if p.spacing() == proc_macro2::Spacing::Joint { 1 } else { 0 }, sp(p.span())),
            TokenTree::Literal(l) => {
                let text = l.to_string();
                if let Ok(li) = syn::parse_str::<syn::LitInt>(&text) {
                    format!("(l int {} {} {})", hex(&text), sp(l.span()), if li.base10_digits().is_empty() { "bad".to_string() } else { li.base10_digits().to_string() })
                } else if syn::parse_str::<syn::LitFloat>(&text).is_ok() {
                    format!("(l float {} {} -)", hex(&text), sp(l.span()))
                } else if let Ok(ls) = syn::parse_str::<syn::LitStr>(&text) {
                    format!("(l str {} {} {})", hex(&text), sp(l.span()), hex(&ls.value()))
                } else {
                    format!("(l other {} {} -)", hex(&text), sp(l.span()))
                }
            }
        });
    }
    out.join(" ")
}

/// Oracle tables: what `syn` answers at every position of every token sequence.
///   (o path index kind consumed deferred-unexpected DUMP)   kind: E (Expr), P (Path), C (ExprClosure; DUMP carries the arity in its class)
pub fn oracle(ts: &TokenStream, path: &mut Vec<usize>, out: &mut Vec<String>) {
    use syn::parse::Parser;
    let v: Vec<TokenTree> = ts.clone().into_iter().collect();
    let n = v.len();
    for i in 0..n {
        let suffix: TokenStream = v[i..].iter().cloned().collect();
        let p = path.iter().map(|x| x.to_string()).collect::<Vec<_>>().join(".");
        let p = if p.is_empty() { "-".to_string() } else { p };
        let count = |rest: &TokenStream| n - i - rest.clone().into_iter().count();
        // `syn` defers "unexpected token" errors for tokens left inside a delimited group: the inner
        // parse succeeds and the error is raised when the outermost parse ends.  The closure's own
        // result says whether the inner parse succeeded; `parse2` failing afterwards says the
        // deferred flag was set (the rest of the stream is consumed, so nothing else can fail).
        let seen: std::cell::RefCell<Option<(usize, String)>> = std::cell::RefCell::new(None);
        let pe = |input: syn::parse::ParseStream| -> syn::Result<()> {
            let e: syn::Expr = input.parse()?;
            let rest: TokenStream = input.parse()?;
            *seen.borrow_mut() = Some((count(&rest), expr(&e)));
            Ok(())
        };
        let r = pe.parse2(suffix.clone());
        if let Some((c, d)) = seen.borrow_mut().take() {
            out.push(format!("(o {} {} E {} {} {})", p, i, c, if r.is_err() { 1 } else { 0 }, d));
        }
        let pp = |input: syn::parse::ParseStream| -> syn::Result<()> {
            let e: syn::Path = input.parse()?;
            let rest: TokenStream = input.parse()?;
            *seen.borrow_mut() = Some((count(&rest), path_dump(&e)));
            Ok(())
        };
        let r = pp.parse2(suffix.clone());
        if let Some((c, d)) = seen.borrow_mut().take() {
            out.push(format!("(o {} {} P {} {} {})", p, i, c, if r.is_err() { 1 } else { 0 }, d));
        }
        let pc = |input: syn::parse::ParseStream| -> syn::Result<()> {
            let c: syn::ExprClosure = input.parse()?;
            let rest: TokenStream = input.parse()?;
            let inputs_sp = sp(c.inputs.span());
            *seen.borrow_mut() = Some((count(&rest), format!("{} {}", inputs_sp, expr(&syn::Expr::Closure(c)))));
            Ok(())
        };
        let r = pc.parse2(suffix.clone());
        if let Some((c, d)) = seen.borrow_mut().take() {
            out.push(format!("(o {} {} C {} {} {})", p, i, c, if r.is_err() { 1 } else { 0 }, d));
        }
        if let TokenTree::Group(g) = &v[i] {
            path.push(i);
            oracle(&g.stream(), path, out);
            path.pop();
        }
    }
}

fn path_dump(p: &syn::Path) -> String {
    path(p)
}
