//! Printers for the T1/T2 ties: the parsed pattern AST (depends on the macro crate's own types).
//! The Lean model prints the same formats from its own AST; the check compares text.
use crate::pattern::*;
pub use crate::dump_syn::*;
#[allow(unused_imports)]
use quote::ToTokens;
#[allow(unused_imports)]
use syn::spanned::Spanned;

fn op(o: &FieldOperation) -> String {
    match o {
        FieldOperation::Deref { count, span } => format!("(deref {} {})", count, sp(*span)),
        FieldOperation::Method { name, args, span } => format!(
            "(method {}@{} {} (args{}))",
            hex(&name.to_string()),
            sp(name.span()),
            sp(*span),
            args.iter().map(|a| format!(" {}", expr(a))).collect::<String>()
        ),
        FieldOperation::Await { span } => format!("(await {})", sp(*span)),
        FieldOperation::NamedField { name, span } => format!("(named {}@{} {})", hex(&name.to_string()), sp(name.span()), sp(*span)),
        FieldOperation::UnnamedField { index, span } => format!("(unnamed {} {})", index, sp(*span)),
        FieldOperation::Index { index, span } => format!("(index {} {})", expr(index), sp(*span)),
        FieldOperation::Chained { operations, span } => format!(
            "(chained {}{})",
            sp(*span),
            operations.iter().map(|o| format!(" {}", op(o))).collect::<String>()
        ),
    }
}

fn elem(e: &TupleElement) -> String {
    match e {
        TupleElement::Positional(p) => format!("(pos {})", pat(p)),
        TupleElement::Indexed(fa) => format!("(idx {} {})", op(&fa.operations), pat(&fa.pattern)),
    }
}

pub fn pat(p: &Pattern) -> String {
    match p {
        Pattern::Simple(x) => format!("(simple {} {})", x.node_id, expr(&x.expr)),
        Pattern::String(x) => {
            let mut v = Vec::new();
            toks(&x.lit.to_token_stream(), &mut v);
            format!("(string {} {} {} {})", x.node_id, hex(&x.lit.value()), sp(x.lit.span()), v.join(" "))
        }
        Pattern::Struct(x) => format!(
            "(struct {} {} (fields{}) {})",
            x.node_id,
            x.path.as_ref().map(path).unwrap_or("none".into()),
            x.fields.iter().map(|f| format!(" (f {} {})", op(&f.operations), pat(&f.pattern))).collect::<String>(),
            x.rest
        ),
        Pattern::Enum(x) => format!(
            "(enum {} {} (elems{}))",
            x.node_id,
            path(&x.path),
            x.elements.iter().map(|e| format!(" {}", elem(e))).collect::<String>()
        ),
        Pattern::Tuple(x) => format!(
            "(tuple {} {} (elems{}))",
            x.node_id,
            sp(x.span),
            x.elements.iter().map(|e| format!(" {}", elem(e))).collect::<String>()
        ),
        Pattern::Slice(x) => format!(
            "(slice {} {} (pats{}))",
            x.node_id,
            sp(x.span),
            x.elements.iter().map(|e| format!(" {}", pat(e))).collect::<String>()
        ),
        Pattern::Set(x) => format!(
            "(set {} {} (pats{}) {})",
            x.node_id,
            sp(x.span),
            x.elements.iter().map(|e| format!(" {}", pat(e))).collect::<String>(),
            x.rest
        ),
        Pattern::Comparison(x) => {
            let o = match &x.op {
                ComparisonOp::Less(_) => "lt",
                ComparisonOp::LessEqual(_) => "le",
                ComparisonOp::Greater(_) => "gt",
                ComparisonOp::GreaterEqual(_) => "ge",
                ComparisonOp::Equal(_) => "eq",
                ComparisonOp::NotEqual(_) => "ne",
            };
            format!("(cmp {} {} {} {})", x.node_id, o, sp(x.op.span()), expr(&x.expr))
        }
        Pattern::Range(x) => format!("(range {} {})", x.node_id, expr(&x.expr)),
        #[cfg(feature = "regex")]
        Pattern::Regex(x) => format!("(regex {} {} {})", x.node_id, hex(&x.pattern), sp(x.span)),
        #[cfg(feature = "regex")]
        Pattern::Like(x) => format!("(like {} {})", x.node_id, expr(&x.expr)),
        Pattern::Wildcard(x) => format!("(wild {})", x.node_id),
        Pattern::Closure(x) => {
            let e = syn::Expr::Closure(x.closure.clone());
            format!("(closure {} {})", x.node_id, expr(&e))
        }
        Pattern::Map(x) => format!(
            "(map {} {} (entries{}) {})",
            x.node_id,
            sp(x.span),
            x.entries.iter().map(|(k, v)| format!(" (kv {} {})", expr(k), pat(v))).collect::<String>(),
            x.rest
        ),
    }
}

/// `Pattern::location()` for every node, in pre-order: `id:ls.cs.le.ce`.
pub fn locations(p: &Pattern, out: &mut Vec<String>) {
    let (a, b, c, d) = p.location();
    let id = match p {
        Pattern::Simple(x) => x.node_id,
        Pattern::String(x) => x.node_id,
        Pattern::Struct(x) => x.node_id,
        Pattern::Enum(x) => x.node_id,
        Pattern::Tuple(x) => x.node_id,
        Pattern::Slice(x) => x.node_id,
        Pattern::Set(x) => x.node_id,
        Pattern::Comparison(x) => x.node_id,
        Pattern::Range(x) => x.node_id,
        #[cfg(feature = "regex")]
        Pattern::Regex(x) => x.node_id,
        #[cfg(feature = "regex")]
        Pattern::Like(x) => x.node_id,
        Pattern::Wildcard(x) => x.node_id,
        Pattern::Closure(x) => x.node_id,
        Pattern::Map(x) => x.node_id,
    };
    out.push(format!("{}:{}.{}.{}.{}", id, a, b, c, d));
    let el = |e: &TupleElement, out: &mut Vec<String>| match e {
        TupleElement::Positional(p) => locations(p, out),
        TupleElement::Indexed(fa) => locations(&fa.pattern, out),
    };
    match p {
        Pattern::Struct(x) => x.fields.iter().for_each(|f| locations(&f.pattern, out)),
        Pattern::Enum(x) => x.elements.iter().for_each(|e| el(e, out)),
        Pattern::Tuple(x) => x.elements.iter().for_each(|e| el(e, out)),
        Pattern::Slice(x) => x.elements.iter().for_each(|e| locations(e, out)),
        Pattern::Set(x) => x.elements.iter().for_each(|e| locations(e, out)),
        Pattern::Map(x) => x.entries.iter().for_each(|(_, v)| locations(v, out)),
        _ => {}
    }
}
