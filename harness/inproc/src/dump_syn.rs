//! Printers that depend on `syn` / proc-macro2 only (token dumps, token trees, oracle tables): shared by the in-process harness and by
//! the stand-alone `toks` binary, which must keep building whatever happens to the macro crate's own types.
#![allow(dead_code)]
use proc_macro2::{Delimiter, Span, TokenStream, TokenTree};
use quote::ToTokens;
use syn::spanned::Spanned;

pub fn hex(s: &str) -> String {
    if s.is_empty() {
        return "-".to_string();
    }
    s.bytes().map(|b| format!("{:02x}", b)).collect()
}

/// Spans are printed as `line.col.line.col`.  The harness prepends one space to every
/// invocation text, so no user token starts at 1:0; a span that does start there is a
/// template token (call site, or a literal written inside `quote!`, which proc-macro2's
/// fallback mode parses in a source "file" of its own) and is printed as the call site.
pub fn sp(s: Span) -> String {
    let a = s.start();
    let b = s.end();
    if a.line == 1 && a.column == 0 {
        return "1.0.1.0".to_string();
    }
    format!("{}.{}.{}.{}", a.line, a.column, b.line, b.column)
}

/// Flat token dump: every token as `hex(text)@span`, groups as their delimiters.
pub fn toks(ts: &TokenStream, out: &mut Vec<String>) {
    for tt in ts.clone() {
        match tt {
            TokenTree::Group(g) => {
                let (o, c) = match g.delimiter() {
                    Delimiter::Parenthesis => ("(", ")"),
                    Delimiter::Brace => ("{", "}"),
                    Delimiter::Bracket => ("[", "]"),
                    Delimiter::None => ("\u{27e8}", "\u{27e9}"),
                };
                out.push(format!("{}@{}", hex(o), sp(g.span())));
                toks(&g.stream(), out);
                out.push(format!("{}@{}", hex(c), sp(g.span())));
            }
            TokenTree::Ident(i) => out.push(format!("{}@{}", hex(&i.to_string()), sp(i.span()))),
            TokenTree::Punct(p) => out.push(format!("{}@{}", hex(&p.as_char().to_string()), sp(p.span()))),
            TokenTree::Literal(l) => {
                let text = l.to_string();
                // string literals are identified by their value, not by their escaping
                match syn::parse_str::<syn::LitStr>(&text) {
                    Ok(ls) if text.starts_with('"') || text.starts_with('r') => {
                        out.push(format!("s:{}@{}", hex(&ls.value()), sp(l.span())))
                    }
                    _ => out.push(format!("{}@{}", hex(&text), sp(l.span()))),
                }
            }
        }
    }
}

pub fn toks_str(ts: &TokenStream) -> String {
    let mut v = Vec::new();
    toks(ts, &mut v);
    format!("(toks {})", v.join(" "))
}

pub fn expr(e: &syn::Expr) -> String {
    let cls = match e {
        syn::Expr::Lit(syn::ExprLit { lit: syn::Lit::Str(l), .. }) => format!("(litstr {})", hex(&l.value())),
        syn::Expr::Lit(_) => "(lit)".to_string(),
        syn::Expr::Range(r) => format!(
            "(range {} {} {})",
            r.start.as_ref().map(|s| sp(s.span())).unwrap_or("none".into()),
            sp(r.limits.span()),
            r.end.as_ref().map(|s| sp(s.span())).unwrap_or("none".into())
        ),
        syn::Expr::Closure(c) => format!("(closure {})", c.inputs.len()),
        syn::Expr::Path(_) => "(path)".to_string(),
        _ => "(other)".to_string(),
    };
    format!("(e {} {} {} {})", cls, sp(e.span()), hex(&e.to_token_stream().to_string()), toks_str(&e.to_token_stream()))
}

pub fn path(p: &syn::Path) -> String {
    let first = p.segments.first().map(|s| sp(s.ident.span())).unwrap_or("none".into());
    let last = p.segments.last().map(|s| sp(s.ident.span())).unwrap_or("none".into());
    format!("(path {} {} {} {} {})", first, last, sp(p.span()), hex(&p.to_token_stream().to_string()), toks_str(&p.to_token_stream()))
}

/// Token trees with everything the parser model looks at.
///   (i hex(name) sp keyword)   (p hex(char) joint sp)   (l kind hex(text) sp extra)   (g delim sp spopen spclose tt...)
/// kind: int (extra = base-10 digits or `bad`), float, str (extra = hex(value)), other.
pub fn tts(ts: &TokenStream) -> String {
    let mut out = Vec::new();
    for tt in ts.clone() {
        out.push(match tt {
            TokenTree::Group(g) => {
                let d = match g.delimiter() {
                    Delimiter::Parenthesis => "paren",
                    Delimiter::Brace => "brace",
                    Delimiter::Bracket => "bracket",
                    Delimiter::None => "none",
                };
                let ds = g.delim_span();
                format!("(g {} {} {} {} {})", d, sp(g.span()), sp(ds.open()), sp(ds.close()), tts(&g.stream()))
            }
            TokenTree::Ident(i) => {
                // whether `syn::Ident` accepts this identifier (keywords and `_` are not accepted)
                let one: TokenStream = std::iter::once(TokenTree::Ident(i.clone())).collect();
                let kw = syn::parse2::<syn::Ident>(one).is_err();
                format!("(i {} {} {})", hex(&i.to_string()), sp(i.span()), if kw { 1 } else { 0 })
            }
            TokenTree::Punct(p) => format!("(p {} {} {})", hex(&p.as_char().to_string()), if p.spacing() == proc_macro2::Spacing::Joint { 1 } else { 0 }, sp(p.span())),
            TokenTree::Literal(l) => {
                let text = l.to_string();
                if let Ok(li) = syn::parse_str::<syn::LitInt>(&text) {
                    format!("(l int {} {} {})", hex(&text), sp(l.span()), if li.base10_digits().is_empty() { "bad".to_string() } else { li.base10_digits().to_string() })
                } else if syn::parse_str::<syn::LitFloat>(&text).is_ok() {
                    format!("(l float {} {} -)", hex(&text), sp(l.span()))
                } else if let Ok(ls) = syn::parse_str::<syn::LitStr>(&text) {
                    format!("(l str {} {} {})", hex(&text), sp(l.span()), hex(&ls.value()))
                } else {
                    format!("(l other {} {} -)", hex(&text), sp(l.span()))
                }
            }
        });
    }
    out.join(" ")
}

/// Oracle tables: what `syn` answers at every position of every token sequence.
///   (o path index kind consumed deferred-unexpected DUMP)   kind: E (Expr), P (Path), C (ExprClosure; DUMP carries the arity in its class)
pub fn oracle(ts: &TokenStream, path: &mut Vec<usize>, out: &mut Vec<String>) {
    use syn::parse::Parser;
    let v: Vec<TokenTree> = ts.clone().into_iter().collect();
    let n = v.len();
    for i in 0..n {
        let suffix: TokenStream = v[i..].iter().cloned().collect();
        let p = path.iter().map(|x| x.to_string()).collect::<Vec<_>>().join(".");
        let p = if p.is_empty() { "-".to_string() } else { p };
        let count = |rest: &TokenStream| n - i - rest.clone().into_iter().count();
        // `syn` defers "unexpected token" errors for tokens left inside a delimited group: the inner
        // parse succeeds and the error is raised when the outermost parse ends.  The closure's own
        // result says whether the inner parse succeeded; `parse2` failing afterwards says the
        // deferred flag was set (the rest of the stream is consumed, so nothing else can fail).
        let seen: std::cell::RefCell<Option<(usize, String)>> = std::cell::RefCell::new(None);
        let pe = |input: syn::parse::ParseStream| -> syn::Result<()> {
            let e: syn::Expr = input.parse()?;
            let rest: TokenStream = input.parse()?;
            *seen.borrow_mut() = Some((count(&rest), expr(&e)));
            Ok(())
        };
        let r = pe.parse2(suffix.clone());
        if let Some((c, d)) = seen.borrow_mut().take() {
            out.push(format!("(o {} {} E {} {} {})", p, i, c, if r.is_err() { 1 } else { 0 }, d));
        }
        let pp = |input: syn::parse::ParseStream| -> syn::Result<()> {
            let e: syn::Path = input.parse()?;
            let rest: TokenStream = input.parse()?;
            *seen.borrow_mut() = Some((count(&rest), path_dump(&e)));
            Ok(())
        };
        let r = pp.parse2(suffix.clone());
        if let Some((c, d)) = seen.borrow_mut().take() {
            out.push(format!("(o {} {} P {} {} {})", p, i, c, if r.is_err() { 1 } else { 0 }, d));
        }
        let pc = |input: syn::parse::ParseStream| -> syn::Result<()> {
            let c: syn::ExprClosure = input.parse()?;
            let rest: TokenStream = input.parse()?;
            let inputs_sp = sp(c.inputs.span());
            *seen.borrow_mut() = Some((count(&rest), format!("{} {}", inputs_sp, expr(&syn::Expr::Closure(c)))));
            Ok(())
        };
        let r = pc.parse2(suffix.clone());
        if let Some((c, d)) = seen.borrow_mut().take() {
            out.push(format!("(o {} {} C {} {} {})", p, i, c, if r.is_err() { 1 } else { 0 }, d));
        }
        if let TokenTree::Group(g) = &v[i] {
            path.push(i);
            oracle(&g.stream(), path, out);
            path.pop();
        }
    }
}

fn path_dump(p: &syn::Path) -> String {
    path(p)
}
