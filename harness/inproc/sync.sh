#!/bin/sh
# Copy the macro crate's current sources next to the harness root (T1/T2, DESIGN.md section 4).
set -e
cd "$(dirname "$0")"
rsync -rc --delete --exclude lib.rs --exclude main.rs --exclude dump.rs --exclude dump_syn.rs --exclude toks_cmds.rs --exclude toks_main.rs /repo/assert-struct-macros/src/ src/
cp /repo/Cargo.lock Cargo.lock
