#!/bin/sh
# Copy the macro crate's current sources next to the harness root (T1/T2, DESIGN.md section 4).
set -e
cd "$(dirname "$0")"
rsync -rc --delete --exclude lib.rs --exclude main.rs --exclude dump.rs --exclude dump_syn.rs --exclude toks_cmds.rs --exclude toks_main.rs --exclude assert_struct_def.rs --exclude gated.rs /repo/assert-struct-macros/src/ src/
cp /repo/Cargo.lock Cargo.lock
# the input struct of the macro, as lib.rs defines it now (the harness reads its `value` and `pattern` fields only, so that a field
# added to it does not stop the harness from building); rewritten only when it changes (cargo looks at mtimes)
python3 - <<'PY'
import os, re
lib = open('/repo/assert-struct-macros/src/lib.rs').read()
m = re.search(r'struct AssertStruct\s*\{[^}]*\}', lib)
text = (m.group(0) if m else 'struct AssertStruct {\n    value: syn::Expr,\n    pattern: Pattern,\n}') + '\n'
p = 'src/assert_struct_def.rs'
if not os.path.exists(p) or open(p).read() != text:
    open(p, 'w').write(text)
PY
