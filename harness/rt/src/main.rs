//! T4 harness: answers one request per stdin line by calling the real runtime
//! crate (built from /repo's working tree with `--cfg assert_struct_verif`).
//! The Lean driver answers the same lines; the check diffs the two streams.
use assert_struct::__macro_support::{
    set_match, ComparisonOp, ErrorReport, NodeKind, PatternNode, PlainOutputGuard,
};
use assert_struct::error::verif_hooks as hooks;
use std::cell::Cell;
use std::io::{BufRead, Write};
use std::panic::{catch_unwind, AssertUnwindSafe};

fn unhex(s: &str) -> Vec<u8> {
    if s == "-" {
        return Vec::new();
    }
    (0..s.len() / 2)
        .map(|i| u8::from_str_radix(&s[2 * i..2 * i + 2], 16).unwrap())
        .collect()
}
fn unhex_str(s: &str) -> String {
    String::from_utf8(unhex(s)).expect("utf8")
}
fn hex(b: &[u8]) -> String {
    if b.is_empty() {
        return "-".to_string();
    }
    b.iter().map(|x| format!("{:02x}", x)).collect()
}
fn leak_str(s: String) -> &'static str {
    Box::leak(s.into_boxed_str())
}

fn dummy_leaf() -> &'static PatternNode {
    Box::leak(Box::new(PatternNode {
        kind: NodeKind::Wildcard,
        parent: None,
        line_start: 0,
        col_start: 0,
        line_end: 0,
        col_end: 0,
    }))
}
fn dummy_items(n: usize) -> &'static [&'static PatternNode] {
    let v: Vec<&'static PatternNode> = (0..n).map(|_| dummy_leaf()).collect();
    Box::leak(v.into_boxed_slice())
}
fn dummy_entries(n: usize) -> &'static [(&'static str, &'static PatternNode)] {
    let v: Vec<(&'static str, &'static PatternNode)> =
        (0..n).map(|i| (leak_str(format!("k{}", i)), dummy_leaf())).collect();
    Box::leak(v.into_boxed_slice())
}

/// kind-spec: see Main.lean `parseKind`.
fn parse_kind(spec: &str) -> NodeKind {
    let p: Vec<&str> = spec.split(':').collect();
    let b = |s: &str| s == "1";
    match p[0] {
        "slice" => NodeKind::Slice { items: dummy_items(p[1].parse().unwrap()), rest: b(p[2]) },
        "set" => NodeKind::Set { items: dummy_items(p[1].parse().unwrap()), rest: b(p[2]) },
        "tuple" => NodeKind::Tuple { items: dummy_items(p[1].parse().unwrap()) },
        "map" => NodeKind::Map { entries: dummy_entries(p[1].parse().unwrap()), rest: b(p[2]) },
        "struct" => NodeKind::Struct { name: leak_str(unhex_str(p[1])), fields: dummy_entries(0), rest: b(p[2]) },
        "enum" => NodeKind::EnumVariant {
            path: leak_str(unhex_str(p[1])),
            args: if b(p[2]) { Some(dummy_items(1)) } else { None },
        },
        "simple" => NodeKind::Simple { value: leak_str(unhex_str(p[1])) },
        "cmp" => NodeKind::Comparison {
            op: match p[1] {
                "lt" => ComparisonOp::Less,
                "le" => ComparisonOp::LessEqual,
                "gt" => ComparisonOp::Greater,
                "ge" => ComparisonOp::GreaterEqual,
                "eq" => ComparisonOp::Equal,
                "ne" => ComparisonOp::NotEqual,
                _ => panic!("op"),
            },
            value: leak_str(unhex_str(p[2])),
        },
        "range" => NodeKind::Range { pattern: leak_str(unhex_str(p[1])) },
        "regex" => NodeKind::Regex { pattern: leak_str(unhex_str(p[1])) },
        "like" => NodeKind::Like { expr: leak_str(unhex_str(p[1])) },
        "wildcard" => NodeKind::Wildcard,
        "closure" => NodeKind::Closure { closure: leak_str(unhex_str(p[1])) },
        other => panic!("unknown kind {}", other),
    }
}

fn node(kind: NodeKind, loc: (u32, u32, u32, u32)) -> &'static PatternNode {
    Box::leak(Box::new(PatternNode {
        kind,
        parent: None,
        line_start: loc.0,
        col_start: loc.1,
        line_end: loc.2,
        col_end: loc.3,
    }))
}

fn opt_hex(s: &str) -> Option<String> {
    if s == "none" { None } else { Some(unhex_str(s)) }
}

/// Format a report (not inside panic!) with recording on; returns
/// (panicked?, output, recording).
/// plain: 0 = no guard, 1 = one guard alive, 2 = an outer guard alive while an inner one has
/// been created and dropped, 3 = a guard created and dropped before formatting,
/// 4 = two guards created, the FIRST one dropped (not in LIFO order), the second alive,
/// 5 = two guards created, the first dropped, then the second: none alive,
/// 6 = three guards created, the middle one dropped: the first and the third alive,
/// 7 = two created, first dropped, a third created and dropped: the second still alive.
fn format_report(report: &ErrorReport, plain: u8) -> (bool, String, hooks::Recording) {
    hooks::start_recording();
    let out = catch_unwind(AssertUnwindSafe(|| {
        let _outer = if plain == 1 || plain == 2 { Some(PlainOutputGuard::new()) } else { None };
        if plain == 2 || plain == 3 {
            let inner = PlainOutputGuard::new();
            drop(inner);
        }
        let mut keep: Vec<PlainOutputGuard> = Vec::new();
        if plain >= 4 {
            let a = PlainOutputGuard::new();
            let b = PlainOutputGuard::new();
            match plain {
                4 => { drop(a); keep.push(b); }
                5 => { drop(a); drop(b); }
                6 => { let c = PlainOutputGuard::new(); drop(b); keep.push(a); keep.push(c); }
                _ => { drop(a); let c = PlainOutputGuard::new(); drop(c); keep.push(b); }
            }
        }
        let out = format!("{}", report);
        drop(keep);
        out
    }));
    let rec = hooks::take_recording().unwrap_or_default();
    match out {
        Ok(s) => (false, s, rec),
        Err(_) => (true, String::new(), rec),
    }
}

fn answer(line: &str) -> String {
    let t: Vec<&str> = line.split_whitespace().collect();
    if t.is_empty() {
        return "bad-op".into();
    }
    match t[0] {
        // setmatch <rest> <P> <E> <row>*   (row = E chars 0/1, "-" when E = 0)
        "setmatch" => {
            let rest = t[1] == "1";
            let p: usize = t[2].parse().unwrap();
            let e: usize = t[3].parse().unwrap();
            let rows: Vec<Vec<bool>> = (0..p)
                .map(|k| {
                    let r = t[4 + k];
                    if r == "-" { vec![] } else { r.chars().map(|c| c == '1').collect() }
                })
                .collect();
            let calls = Cell::new(0usize);
            let preds: Vec<Box<dyn Fn(usize) -> bool>> = rows
                .iter()
                .map(|row| {
                    let row = row.clone();
                    let calls = &calls;
                    // SAFETY of lifetimes: closures only live inside this arm.
                    let f: Box<dyn Fn(usize) -> bool + '_> = Box::new(move |i| {
                        calls.set(calls.get() + 1);
                        row[i]
                    });
                    unsafe { std::mem::transmute::<Box<dyn Fn(usize) -> bool + '_>, Box<dyn Fn(usize) -> bool>>(f) }
                })
                .collect();
            let refs: Vec<&dyn Fn(usize) -> bool> = preds.iter().map(|b| &**b).collect();
            let n = node(NodeKind::Set { items: dummy_items(p), rest }, (1, 0, 1, 1));
            let mut report = ErrorReport::new("/nonexistent-manifest-dir", "nonexistent.rs");
            let res = catch_unwind(AssertUnwindSafe(|| set_match(e, rest, &refs, &mut report, n)));
            if res.is_err() {
                return "panic".into();
            }
            let (_, _, rec) = format_report(&report, 1);
            if rec.entries.is_empty() {
                "[]".into()
            } else {
                rec.entries
                    .iter()
                    .map(|en| format!("push|{}|{}", en.actual, en.expected.clone().unwrap_or_else(|| "<none>".into())))
                    .collect::<Vec<_>>()
                    .join(";")
            }
        }
        // offset <hexsrc> <line> <col>
        "offset" => {
            let src = unhex_str(t[1]);
            let r = catch_unwind(|| hooks::byte_offset_of(&src, t[2].parse().unwrap(), t[3].parse().unwrap()));
            match r { Ok(n) => n.to_string(), Err(_) => "panic".into() }
        }
        // abspath <hex manifest> <hex file>
        "abspath" => {
            let m = unhex_str(t[1]);
            let f = unhex_str(t[2]);
            let r = hooks::absolute_source_path(&m, &f);
            hex(r.to_str().unwrap().as_bytes())
        }
        // label <kindspec> <hexactual> <hexexpected|none>
        "label" => {
            let n = node(parse_kind(t[1]), (1, 0, 1, 1));
            hex(hooks::error_label(n, unhex_str(t[2]), opt_hex(t[3])).as_bytes())
        }
        // display <hex manifest> <hex file> <plain> <src (ignored here: the file is on disk)> <n> (<ls> <cs> <le> <ce> <kindspec> <hexactual> <hexexp|none>)*
        // answer: ok|panic ; spans ; entries(label hex) ; hex(output)
        "display" => {
            let m = unhex_str(t[1]);
            let f = unhex_str(t[2]);
            let plain: u8 = t[3].parse().unwrap();
            let n: usize = t[5].parse().unwrap();
            let mut report = ErrorReport::new(&m, &f);
            let mut last: Option<&'static PatternNode> = None;
            for k in 0..n {
                let b = 6 + 7 * k;
                let loc = (t[b].parse().unwrap(), t[b + 1].parse().unwrap(), t[b + 2].parse().unwrap(), t[b + 3].parse().unwrap());
                // kind `prev`: this entry is pushed against the SAME node as the previous one
                // (a map pushes its length failure and every missing key against its own node)
                let nd = if t[b + 4] == "prev" { last.expect("prev without a previous entry") } else { node(parse_kind(t[b + 4]), loc) };
                last = Some(nd);
                report.push(nd, unhex_str(t[b + 5]), opt_hex(t[b + 6]));
            }
            let (panicked, out, rec) = format_report(&report, plain);
            let spans: Vec<String> = rec.spans.iter().map(|(a, b)| format!("{}-{}", a, b)).collect();
            let labels: Vec<String> = rec.entries.iter().map(|e| hex(e.label.as_bytes())).collect();
            format!(
                "{} spans={} labels={} out={}",
                if panicked { "panic" } else { "ok" },
                if spans.is_empty() { "-".to_string() } else { spans.join(",") },
                if labels.is_empty() { "-".to_string() } else { labels.join(",") },
                hex(out.as_bytes())
            )
        }
        // render <hexsrc> <a> <b> : does annotate-snippets survive this span?
        "render" => {
            use annotate_snippets::{AnnotationKind, Level, Renderer, Snippet};
            let src = unhex_str(t[1]);
            let a: usize = t[2].parse().unwrap();
            let b: usize = t[3].parse().unwrap();
            let r = catch_unwind(AssertUnwindSafe(|| {
                let ann = vec![AnnotationKind::Primary.span(a..b).label("x")];
                let snippet = Snippet::source(&*src).line_start(1).path("f.rs").annotations(ann);
                let report = Level::ERROR.primary_title("t").element(snippet);
                Renderer::plain().render(&[report]).to_string()
            }));
            match r { Ok(_) => "ok".into(), Err(_) => "panic".into() }
        }
        // setenv <hex name> <hex value> / unsetenv <hex name>: change the environment of this process
        "setenv" => {
            unsafe { std::env::set_var(unhex_str(t[1]), unhex_str(t[2])) };
            "ok".into()
        }
        "unsetenv" => {
            unsafe { std::env::remove_var(unhex_str(t[1])) };
            "ok".into()
        }
        // conc <hex dir> <threads> <rounds> <shared:0|1> : threads format failing reports at a barrier;
        // every message must equal the one the same failure produces alone.
        "conc" => {
            let dir = unhex_str(t[1]);
            let n: usize = t[2].parse().unwrap();
            let rounds: usize = t[3].parse().unwrap();
            let shared = t[4] == "1";
            conc(&dir, n, rounds, shared)
        }
        // sched <hex dir> <run id> <paths: 0.1.0> <fs: 5.0.7 (0 = file missing)> <warm: 1.0.0> <schedule: 0.1.w1.0>
        // threads run the real cached_source under a controller that releases one step at a time
        "sched" => sched(&unhex_str(t[1]), t[2], t[3], t[4], t[5], t[6], t.get(7).and_then(|x| x.parse().ok()).unwrap_or(40)),
        _ => "bad-op".into(),
    }
}

mod schedctl {
    use super::hooks;
    use std::sync::{Arc, Condvar, Mutex};
    use std::time::{Duration, Instant};

    pub struct State {
        pub at: Vec<Option<u8>>,      // the scheduling point a thread is parked at
        pub arrivals: Vec<u64>,       // number of times a thread parked
        pub permits: Vec<u32>,
        pub finished: Vec<bool>,
        pub free_run: bool,
    }
    pub struct Ctl {
        pub st: Mutex<State>,
        pub cv: Condvar,
    }
    pub struct Hook {
        pub ctl: Arc<Ctl>,
        pub id: usize,
    }
    impl hooks::SchedHook for Hook {
        fn point(&self, k: u8) {
            let mut g = self.ctl.st.lock().unwrap();
            g.at[self.id] = Some(k);
            g.arrivals[self.id] += 1;
            self.ctl.cv.notify_all();
            while g.permits[self.id] == 0 && !g.free_run {
                g = self.ctl.cv.wait(g).unwrap();
            }
            if g.permits[self.id] > 0 {
                g.permits[self.id] -= 1;
            }
            g.at[self.id] = None;
        }
    }
    impl Ctl {
        /// Waits until thread `i` has parked again (more arrivals than `seen`) or finished.
        pub fn wait_progress(&self, i: usize, seen: u64, timeout: Duration) -> String {
            let deadline = Instant::now() + timeout;
            let mut g = self.st.lock().unwrap();
            loop {
                if g.finished[i] {
                    return "done".into();
                }
                if g.arrivals[i] > seen {
                    if let Some(k) = g.at[i] {
                        return format!("p{}", k);
                    }
                }
                let now = Instant::now();
                if now >= deadline {
                    return "blocked".into();
                }
                let (gg, _) = self.cv.wait_timeout(g, deadline - now).unwrap();
                g = gg;
            }
        }
    }
}

fn sched(dir: &str, run: &str, paths: &str, fs: &str, warm: &str, schedule: &str, step_ms: u64) -> String {
    use schedctl::*;
    use std::sync::{Arc, Condvar, Mutex};
    use std::time::Duration;
    let nums = |x: &str| -> Vec<usize> { if x == "-" { vec![] } else { x.split('.').map(|v| v.parse().unwrap()).collect() } };
    let ps = nums(paths);
    let fsl = nums(fs);
    let wl = nums(warm);
    let file_of = |p: usize| std::path::Path::new(dir).join(format!("s{}_p{}.rs", run, p));
    for (p, c) in fsl.iter().enumerate() {
        if *c != 0 {
            std::fs::write(file_of(p), format!("c{}", c)).unwrap();
        }
    }
    for (p, w) in wl.iter().enumerate() {
        if *w == 1 {
            let _ = hooks::cached_source(&file_of(p));
        }
    }
    let n = ps.len();
    let ctl = Arc::new(Ctl {
        st: Mutex::new(State { at: vec![None; n], arrivals: vec![0; n], permits: vec![0; n], finished: vec![false; n], free_run: false }),
        cv: Condvar::new(),
    });
    let mut handles = Vec::new();
    for (i, p) in ps.iter().enumerate() {
        let ctl2 = ctl.clone();
        let path = file_of(*p);
        handles.push(std::thread::spawn(move || {
            hooks::set_sched_hook(Some(Arc::new(Hook { ctl: ctl2.clone(), id: i })));
            let r = hooks::cached_source(&path);
            hooks::set_sched_hook(None);
            let mut g = ctl2.st.lock().unwrap();
            g.finished[i] = true;
            ctl2.cv.notify_all();
            r.map(|a| a.to_string())
        }));
    }
    // every thread parks at point 0 first
    let mut seen_arr = vec![0u64; n];
    for i in 0..n {
        ctl.wait_progress(i, 0, Duration::from_secs(5));
        seen_arr[i] = ctl.st.lock().unwrap().arrivals[i];
    }
    let mut obs = Vec::new();
    let mut outstanding = vec![false; n];
    for tok in schedule.split('.') {
        if tok.is_empty() || tok == "-" {
            continue;
        }
        let (wait_only, i) = if let Some(rest) = tok.strip_prefix('w') { (true, rest.parse::<usize>().unwrap()) } else { (false, tok.parse::<usize>().unwrap()) };
        {
            let mut g = ctl.st.lock().unwrap();
            if g.finished[i] {
                obs.push("finished".to_string());
                continue;
            }
            if !wait_only {
                if outstanding[i] {
                    obs.push("pending".to_string());
                    continue;
                }
                g.permits[i] += 1;
                ctl.cv.notify_all();
            }
        }
        let r = ctl.wait_progress(i, seen_arr[i], Duration::from_millis(if wait_only { 500.max(step_ms) } else { step_ms }));
        outstanding[i] = r == "blocked";
        if r != "blocked" {
            seen_arr[i] = ctl.st.lock().unwrap().arrivals[i];
        }
        obs.push(r);
    }
    // let everything run to completion
    {
        let mut g = ctl.st.lock().unwrap();
        g.free_run = true;
        ctl.cv.notify_all();
    }
    // all threads must finish now (a thread that does not is stuck on a lock: deadlock)
    {
        let deadline = std::time::Instant::now() + Duration::from_secs(5);
        let mut g = ctl.st.lock().unwrap();
        while !g.finished.iter().all(|f| *f) {
            let now = std::time::Instant::now();
            if now >= deadline {
                return format!("{}|DEADLOCK|-", obs.join(" "));
            }
            let (gg, _) = ctl.cv.wait_timeout(g, deadline - now).unwrap();
            g = gg;
        }
    }
    let results: Vec<String> = handles
        .into_iter()
        .map(|h| match h.join().unwrap() {
            None => "none".to_string(),
            Some(c) => c.trim_start_matches('c').to_string(),
        })
        .collect();
    // what is cached now: change the files, a cached path still answers with the old content
    let mut cache = Vec::new();
    for p in 0..fsl.len() {
        std::fs::write(file_of(p), "changed").unwrap();
        match hooks::cached_source(&file_of(p)) {
            Some(c) if &*c != "changed" => cache.push(c.trim_start_matches('c').to_string()),
            _ => cache.push("-".to_string()),
        }
    }
    format!("{}|{}|{}", obs.join(" "), results.join(" "), cache.join(" "))
}

fn make_report(dir: &str, file: &str, k: usize) -> ErrorReport {
    let mut report = ErrorReport::new(dir, file);
    let n1 = node(NodeKind::Comparison { op: ComparisonOp::Greater, value: leak_str(format!("{}", k)) }, (2, 4, 2, 9));
    let n2 = node(NodeKind::Simple { value: leak_str("\"x\"".to_string()) }, (3, 4, 3, 7));
    report.push(n1, format!("{}", k), None);
    report.push(n2, format!("\"thread {}\"", k), None);
    report
}

fn conc(dir: &str, n: usize, rounds: usize, shared: bool) -> String {
    use std::sync::{Arc, Barrier};
    let mut bad = Vec::new();
    for r in 0..rounds {
        // fresh files each round: the first access in the process is cold
        let files: Vec<String> = (0..n).map(|k| if shared { format!("r{}_shared.rs", r) } else { format!("r{}_t{}.rs", r, k) }).collect();
        for (k, f) in files.iter().enumerate() {
            let body = if shared { format!("// shared é\n    >= {}\n    \"lit\"\n", r) } else { format!("// file of thread {} é\n    >= {}\n    \"l{}\"\n", k, k, k) };
            std::fs::write(std::path::Path::new(dir).join(f), body).unwrap();
        }
        let barrier = Arc::new(Barrier::new(n));
        let mut handles = Vec::new();
        for k in 0..n {
            let dir = dir.to_string();
            let f = files[k].clone();
            let b = barrier.clone();
            handles.push(std::thread::spawn(move || {
                let report = make_report(&dir, &f, k);
                b.wait();
                let _g = PlainOutputGuard::new();
                let cold = format!("{}", report);
                let warm = format!("{}", report);
                (cold, warm)
            }));
        }
        let outs: Vec<(String, String)> = handles.into_iter().map(|h| h.join().unwrap()).collect();
        // reference: the same failure formatted alone, afterwards, over an identical fresh file
        for k in 0..n {
            let rf = format!("ref_{}_{}.rs", r, k);
            std::fs::copy(std::path::Path::new(dir).join(&files[k]), std::path::Path::new(dir).join(&rf)).unwrap();
            let report = make_report(dir, &rf, k);
            let _g = PlainOutputGuard::new();
            let alone = format!("{}", report).replace(&rf, &files[k]);
            if outs[k].0 != alone || outs[k].1 != alone {
                bad.push(format!("round={} thread={}", r, k));
            }
            if !alone.contains(&format!("{}", k)) || !alone.contains("assert_struct! failed") {
                bad.push(format!("reference-broken round={} thread={}", r, k));
            }
        }
    }
    if bad.is_empty() { "ok".into() } else { format!("mismatch {}", bad.join(",")) }
}

fn main() {
    std::panic::set_hook(Box::new(|_| {}));
    let stdin = std::io::stdin();
    let stdout = std::io::stdout();
    let mut out = std::io::BufWriter::new(stdout.lock());
    for line in stdin.lock().lines() {
        let line = line.unwrap();
        let a = match catch_unwind(AssertUnwindSafe(|| answer(&line))) {
            Ok(a) => a,
            Err(_) => "harness-panic".to_string(),
        };
        writeln!(out, "{}", a).unwrap();
    }
    out.flush().unwrap();
}
