//! T4 harness: answers one request per stdin line by calling the real runtime
//! crate (built from /repo's working tree with `--cfg assert_struct_verif`).
//! The Lean driver answers the same lines; the check diffs the two streams.
use assert_struct::__macro_support::{
    set_match, ComparisonOp, ErrorReport, NodeKind, PatternNode, PlainOutputGuard,
};
use assert_struct::error::verif_hooks as hooks;
use std::cell::Cell;
use std::io::{BufRead, Write};
use std::panic::{catch_unwind, AssertUnwindSafe};

fn unhex(s: &str) -> Vec<u8> {
    if s == "-" {
        return Vec::new();
    }
    (0..s.len() / 2)
        .map(|i| u8::from_str_radix(&s[2 * i..2 * i + 2], 16).unwrap())
        .collect()
}
fn unhex_str(s: &str) -> String {
    String::from_utf8(unhex(s)).expect("utf8")
}
fn hex(b: &[u8]) -> String {
    if b.is_empty() {
        return "-".to_string();
    }
    b.iter().map(|x| format!("{:02x}", x)).collect()
}
fn leak_str(s: String) -> &'static str {
    Box::leak(s.into_boxed_str())
}

fn dummy_leaf() -> &'static PatternNode {
    Box::leak(Box::new(PatternNode {
        kind: NodeKind::Wildcard,
        parent: None,
        line_start: 0,
        col_start: 0,
        line_end: 0,
        col_end: 0,
    }))
}
fn dummy_items(n: usize) -> &'static [&'static PatternNode] {
    let v: Vec<&'static PatternNode> = (0..n).map(|_| dummy_leaf()).collect();
    Box::leak(v.into_boxed_slice())
}
fn dummy_entries(n: usize) -> &'static [(&'static str, &'static PatternNode)] {
    let v: Vec<(&'static str, &'static PatternNode)> =
        (0..n).map(|i| (leak_str(format!("k{}", i)), dummy_leaf())).collect();
    Box::leak(v.into_boxed_slice())
}

/// kind-spec: see Main.lean `parseKind`.
fn parse_kind(spec: &str) -> NodeKind {
    let p: Vec<&str> = spec.split(':').collect();
    let b = |s: &str| s == "1";
    match p[0] {
        "slice" => NodeKind::Slice { items: dummy_items(p[1].parse().unwrap()), rest: b(p[2]) },
        "set" => NodeKind::Set { items: dummy_items(p[1].parse().unwrap()), rest: b(p[2]) },
        "tuple" => NodeKind::Tuple { items: dummy_items(p[1].parse().unwrap()) },
        "map" => NodeKind::Map { entries: dummy_entries(p[1].parse().unwrap()), rest: b(p[2]) },
        "struct" => NodeKind::Struct { name: leak_str(unhex_str(p[1])), fields: dummy_entries(0), rest: b(p[2]) },
        "enum" => NodeKind::EnumVariant {
            path: leak_str(unhex_str(p[1])),
            args: if b(p[2]) { Some(dummy_items(1)) } else { None },
        },
        "simple" => NodeKind::Simple { value: leak_str(unhex_str(p[1])) },
        "cmp" => NodeKind::Comparison {
            op: match p[1] {
                "lt" => ComparisonOp::Less,
                "le" => ComparisonOp::LessEqual,
                "gt" => ComparisonOp::Greater,
                "ge" => ComparisonOp::GreaterEqual,
                "eq" => ComparisonOp::Equal,
                "ne" => ComparisonOp::NotEqual,
                _ => panic!("op"),
            },
            value: leak_str(unhex_str(p[2])),
        },
        "range" => NodeKind::Range { pattern: leak_str(unhex_str(p[1])) },
        "regex" => NodeKind::Regex { pattern: leak_str(unhex_str(p[1])) },
        "like" => NodeKind::Like { expr: leak_str(unhex_str(p[1])) },
        "wildcard" => NodeKind::Wildcard,
        "closure" => NodeKind::Closure { closure: leak_str(unhex_str(p[1])) },
        other => panic!("unknown kind {}", other),
    }
}

fn node(kind: NodeKind, loc: (u32, u32, u32, u32)) -> &'static PatternNode {
    Box::leak(Box::new(PatternNode {
        kind,
        parent: None,
        line_start: loc.0,
        col_start: loc.1,
        line_end: loc.2,
        col_end: loc.3,
    }))
}

fn opt_hex(s: &str) -> Option<String> {
    if s == "none" { None } else { Some(unhex_str(s)) }
}

/// Format a report (not inside panic!) with recording on; returns
/// (panicked?, output, recording).
/// plain: 0 = no guard, 1 = one guard alive, 2 = an outer guard alive while an inner one has
/// been created and dropped, 3 = a guard created and dropped before formatting.
fn format_report(report: &ErrorReport, plain: u8) -> (bool, String, hooks::Recording) {
    hooks::start_recording();
    let out = catch_unwind(AssertUnwindSafe(|| {
        let _outer = if plain == 1 || plain == 2 { Some(PlainOutputGuard::new()) } else { None };
        if plain == 2 || plain == 3 {
            let inner = PlainOutputGuard::new();
            drop(inner);
        }
        format!("{}", report)
    }));
    let rec = hooks::take_recording().unwrap_or_default();
    match out {
        Ok(s) => (false, s, rec),
        Err(_) => (true, String::new(), rec),
    }
}

fn answer(line: &str) -> String {
    let t: Vec<&str> = line.split_whitespace().collect();
    if t.is_empty() {
        return "bad-op".into();
    }
    match t[0] {
        // setmatch <rest> <P> <E> <row>*   (row = E chars 0/1, "-" when E = 0)
        "setmatch" => {
            let rest = t[1] == "1";
            let p: usize = t[2].parse().unwrap();
            let e: usize = t[3].parse().unwrap();
            let rows: Vec<Vec<bool>> = (0..p)
                .map(|k| {
                    let r = t[4 + k];
                    if r == "-" { vec![] } else { r.chars().map(|c| c == '1').collect() }
                })
                .collect();
            let calls = Cell::new(0usize);
            let preds: Vec<Box<dyn Fn(usize) -> bool>> = rows
                .iter()
                .map(|row| {
                    let row = row.clone();
                    let calls = &calls;
                    // SAFETY of lifetimes: closures only live inside this arm.
                    let f: Box<dyn Fn(usize) -> bool + '_> = Box::new(move |i| {
                        calls.set(calls.get() + 1);
                        row[i]
                    });
                    unsafe { std::mem::transmute::<Box<dyn Fn(usize) -> bool + '_>, Box<dyn Fn(usize) -> bool>>(f) }
                })
                .collect();
            let refs: Vec<&dyn Fn(usize) -> bool> = preds.iter().map(|b| &**b).collect();
            let n = node(NodeKind::Set { items: dummy_items(p), rest }, (1, 0, 1, 1));
            let mut report = ErrorReport::new("/nonexistent-manifest-dir", "nonexistent.rs");
            let res = catch_unwind(AssertUnwindSafe(|| set_match(e, rest, &refs, &mut report, n)));
            if res.is_err() {
                return "panic".into();
            }
            let (_, _, rec) = format_report(&report, 1);
            if rec.entries.is_empty() {
                "[]".into()
            } else {
                rec.entries
                    .iter()
                    .map(|en| format!("push|{}|{}", en.actual, en.expected.clone().unwrap_or_else(|| "<none>".into())))
                    .collect::<Vec<_>>()
                    .join(";")
            }
        }
        // offset <hexsrc> <line> <col>
        "offset" => {
            let src = unhex_str(t[1]);
            let r = catch_unwind(|| hooks::byte_offset_of(&src, t[2].parse().unwrap(), t[3].parse().unwrap()));
            match r { Ok(n) => n.to_string(), Err(_) => "panic".into() }
        }
        // abspath <hex manifest> <hex file>
        "abspath" => {
            let m = unhex_str(t[1]);
            let f = unhex_str(t[2]);
            let r = hooks::absolute_source_path(&m, &f);
            hex(r.to_str().unwrap().as_bytes())
        }
        // label <kindspec> <hexactual> <hexexpected|none>
        "label" => {
            let n = node(parse_kind(t[1]), (1, 0, 1, 1));
            hex(hooks::error_label(n, unhex_str(t[2]), opt_hex(t[3])).as_bytes())
        }
        // display <hex manifest> <hex file> <plain> <src (ignored here: the file is on disk)> <n> (<ls> <cs> <le> <ce> <kindspec> <hexactual> <hexexp|none>)*
        // answer: ok|panic ; spans ; entries(label hex) ; hex(output)
        "display" => {
            let m = unhex_str(t[1]);
            let f = unhex_str(t[2]);
            let plain: u8 = t[3].parse().unwrap();
            let n: usize = t[5].parse().unwrap();
            let mut report = ErrorReport::new(&m, &f);
            for k in 0..n {
                let b = 6 + 7 * k;
                let loc = (t[b].parse().unwrap(), t[b + 1].parse().unwrap(), t[b + 2].parse().unwrap(), t[b + 3].parse().unwrap());
                let nd = node(parse_kind(t[b + 4]), loc);
                report.push(nd, unhex_str(t[b + 5]), opt_hex(t[b + 6]));
            }
            let (panicked, out, rec) = format_report(&report, plain);
            let spans: Vec<String> = rec.spans.iter().map(|(a, b)| format!("{}-{}", a, b)).collect();
            let labels: Vec<String> = rec.entries.iter().map(|e| hex(e.label.as_bytes())).collect();
            format!(
                "{} spans={} labels={} out={}",
                if panicked { "panic" } else { "ok" },
                if spans.is_empty() { "-".to_string() } else { spans.join(",") },
                if labels.is_empty() { "-".to_string() } else { labels.join(",") },
                hex(out.as_bytes())
            )
        }
        // render <hexsrc> <a> <b> : does annotate-snippets survive this span?
        "render" => {
            use annotate_snippets::{AnnotationKind, Level, Renderer, Snippet};
            let src = unhex_str(t[1]);
            let a: usize = t[2].parse().unwrap();
            let b: usize = t[3].parse().unwrap();
            let r = catch_unwind(AssertUnwindSafe(|| {
                let ann = vec![AnnotationKind::Primary.span(a..b).label("x")];
                let snippet = Snippet::source(&*src).line_start(1).path("f.rs").annotations(ann);
                let report = Level::ERROR.primary_title("t").element(snippet);
                Renderer::plain().render(&[report]).to_string()
            }));
            match r { Ok(_) => "ok".into(), Err(_) => "panic".into() }
        }
        // setenv <hex name> <hex value> / unsetenv <hex name>: change the environment of this process
        "setenv" => {
            unsafe { std::env::set_var(unhex_str(t[1]), unhex_str(t[2])) };
            "ok".into()
        }
        "unsetenv" => {
            unsafe { std::env::remove_var(unhex_str(t[1])) };
            "ok".into()
        }
        // conc <hex dir> <threads> <rounds> <shared:0|1> : threads format failing reports at a barrier;
        // every message must equal the one the same failure produces alone.
        "conc" => {
            let dir = unhex_str(t[1]);
            let n: usize = t[2].parse().unwrap();
            let rounds: usize = t[3].parse().unwrap();
            let shared = t[4] == "1";
            conc(&dir, n, rounds, shared)
        }
        _ => "bad-op".into(),
    }
}

fn make_report(dir: &str, file: &str, k: usize) -> ErrorReport {
    let mut report = ErrorReport::new(dir, file);
    let n1 = node(NodeKind::Comparison { op: ComparisonOp::Greater, value: leak_str(format!("{}", k)) }, (2, 4, 2, 9));
    let n2 = node(NodeKind::Simple { value: leak_str("\"x\"".to_string()) }, (3, 4, 3, 7));
    report.push(n1, format!("{}", k), None);
    report.push(n2, format!("\"thread {}\"", k), None);
    report
}

fn conc(dir: &str, n: usize, rounds: usize, shared: bool) -> String {
    use std::sync::{Arc, Barrier};
    let mut bad = Vec::new();
    for r in 0..rounds {
        // fresh files each round: the first access in the process is cold
        let files: Vec<String> = (0..n).map(|k| if shared { format!("r{}_shared.rs", r) } else { format!("r{}_t{}.rs", r, k) }).collect();
        for (k, f) in files.iter().enumerate() {
            let body = if shared { format!("// shared é\n    >= {}\n    \"lit\"\n", r) } else { format!("// file of thread {} é\n    >= {}\n    \"l{}\"\n", k, k, k) };
            std::fs::write(std::path::Path::new(dir).join(f), body).unwrap();
        }
        let barrier = Arc::new(Barrier::new(n));
        let mut handles = Vec::new();
        for k in 0..n {
            let dir = dir.to_string();
            let f = files[k].clone();
            let b = barrier.clone();
            handles.push(std::thread::spawn(move || {
                let report = make_report(&dir, &f, k);
                b.wait();
                let _g = PlainOutputGuard::new();
                let cold = format!("{}", report);
                let warm = format!("{}", report);
                (cold, warm)
            }));
        }
        let outs: Vec<(String, String)> = handles.into_iter().map(|h| h.join().unwrap()).collect();
        // reference: the same failure formatted alone, afterwards, over an identical fresh file
        for k in 0..n {
            let rf = format!("ref_{}_{}.rs", r, k);
            std::fs::copy(std::path::Path::new(dir).join(&files[k]), std::path::Path::new(dir).join(&rf)).unwrap();
            let report = make_report(dir, &rf, k);
            let _g = PlainOutputGuard::new();
            let alone = format!("{}", report).replace(&rf, &files[k]);
            if outs[k].0 != alone || outs[k].1 != alone {
                bad.push(format!("round={} thread={}", r, k));
            }
            if !alone.contains(&format!("{}", k)) || !alone.contains("assert_struct! failed") {
                bad.push(format!("reference-broken round={} thread={}", r, k));
            }
        }
    }
    if bad.is_empty() { "ok".into() } else { format!("mismatch {}", bad.join(",")) }
}

fn main() {
    std::panic::set_hook(Box::new(|_| {}));
    let stdin = std::io::stdin();
    let stdout = std::io::stdout();
    let mut out = std::io::BufWriter::new(stdout.lock());
    for line in stdin.lock().lines() {
        let line = line.unwrap();
        let a = match catch_unwind(AssertUnwindSafe(|| answer(&line))) {
            Ok(a) => a,
            Err(_) => "harness-panic".to_string(),
        };
        writeln!(out, "{}", a).unwrap();
    }
    out.flush().unwrap();
}
